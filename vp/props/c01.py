"""C01 — Static extraction is faithful to the source.

Domain (i): modules rendered from the structural model of vp/gen/c01_mod.py (G-MOD), analysed through
`griffe.visit(...)` and, for a sampled subset, `griffe.load(..., allow_inspection=False)` of files under a scratch
directory. Oracle: CPython's parser plus the reference binder of vp/gen/c01_ref.py (written from the property text;
never looks at Griffe). Domain (ii): compilable modules from the wide statement grammar of vp/gen/c01_wide.py
(and pysource_codegen in the thorough tier): totality and structural sanity only.

Clauses (Fail.clause):
  total        never raises (both entry points)
  members      member-name set at every level equals the reference set (wildcard placeholders excepted)
  kind         kind of the surviving binding (property -> attribute); parent identity; path
  span         lineno/endlineno (first decorator line for decorated defs/classes; either for property attributes)
  slice        source lines [lineno-1:endlineno] parse to exactly that definition; obj.lines / obj.source equal them
  decorators   count, line spans, str(value) AST-equal to the source decorator
  labels       decorator-derived labels equal the documented table on the resolved decorator path; async label
  docstring    text, line span, attribute docstrings (string statement right after, same statement list)
  runtime      runtime is False exactly inside the body of a module/class-level `if TYPE_CHECKING:`
  imports      imports map equals the last import statement per name; alias target paths
  exports      exports equal the `__all__` literal (+ augmented additions)
  visibility   is_special/is_private/is_class_private/is_imported/is_exported/is_public per docs/guide/users/navigating.md
  events       every object in the tree announced exactly once, parent before members, on_members after the last member
  sanity       (domain ii) parents and names consistent
"""

from __future__ import annotations

import ast
import os
import shutil
import tempfile
import textwrap
from pathlib import Path

from vp.common.harness import Fail, call, digest
from vp.gen import c01_mod, c01_ref
from vp.gen.c01_ref import DECORATOR_LABELS, UNKNOWN, Binder, doc_texts

ID = "C01"
LEVEL = "exploration"
RULE = (
    "Hypothesis-generated structural module models (five layouts: m, p.m, p/__init__, p.q.m, p/q/__init__; nested defs/classes, plain/annotated/multi-target assignments, every import form, "
    "__all__ forms (also re-assigned inside blocks), if/elif/else, try/except/else/finally, for, with, while, match, TYPE_CHECKING blocks, property "
    "setter groups, __init__ instance attributes and definitions nested in __init__, docstring "
    "literals at legal and illegal positions, decorators from the label tables through every import form, unsupported binders; names from a "
    "pool of 12 covering the 3x3 grid of 0/1/2 leading x trailing underscores, so duplicates are the norm) rendered to text; each text judged against a reference binder over ast.parse. "
    "non-trivial = module has a duplicate binding, a definition inside a compound statement, a nested class, a decorated definition, an "
    "__init__ instance attribute or __all__; distinct = distinct source text. Totality-only cases (wide grammar / pysource_codegen) are "
    "counted in evaluations and classes ('wide:*') but never as non-trivial."
)
ASSUMPTIONS = [
    "CPython 3.12 ast.parse is the reference for statement structure, line spans and literal values",
    "the reference binder (vp/gen/c01_ref.py) is a second reading of the property text: later wins; a conditional re-assignment "
    "(all enclosing blocks are if/elif/else/except) keeps an existing attribute; over an existing function/class/alias, and for mixed "
    "nestings (if->with, try-else, finally, for-else), either surviving binding is accepted",
    "functions whose decorators resolve to a property-labelled decorator are expected as attributes; their lineno may be the def line "
    "or the first decorator line",
    "typing.overload stubs are only generated as complete groups (stubs immediately followed by the implementation); the member is the implementation",
    "decorator names and TYPE_CHECKING are bound only by an import prelude at the top of the module (optionally inside try/except ImportError), "
    "so that their resolution is decided by Python scoping without ambiguity",
    "`if TYPE_CHECKING` / `if typing.TYPE_CHECKING` directly in module/class bodies guards its body; below another block or as `elif` the runtime flag "
    "of the contained definitions is not judged (left open by the statement)",
    "`@x.setter` / `@x.deleter def x` when a member x already exists (any kind): the existing binding or the new definition (as attribute or "
    "function) are accepted; an instance attribute assigned over a property of the same name: either",
    "`while` / `match` blocks are not among the blocks the property names: names bound inside them may or may not be members; definitions nested in "
    "`__init__` must not raise and must not become class members, where they are recorded is not judged",
    "instance attributes come only from an `__init__` defined in a class body: functions called __init__ at module level or nested in functions, "
    "and `self.x = ...` in other functions/methods, bind nothing; a class-level or instance `__all__` is an ordinary attribute (is_exported is "
    "False for class members: exported = listed in the parent module's __all__)",
    "exports are those of the surviving `__all__` binding (a conditional re-assignment that does not displace the existing attribute leaves them "
    "unchanged; where the surviving binding is open, exports are not judged), extended by later module-level `__all__ += [...]`",
    "an attribute without own docstring that re-binds an earlier binding of the same name may carry that earlier docstring (documented forwarding) or none",
    "relative imports (levels 1-2, never beyond the top-level package) are generated for the layouts p.m, p/__init__, p.q.m and p/q/__init__; `from . import name` inside "
    "an __init__ module may or may not yield a member (the name is the submodule itself); no import targets the module itself",
    "with griffe.load the built-in dataclasses extension may add a synthesized __init__ (lineno 0) to dataclass-decorated classes: ignored",
    "docstring text is compared with inspect.cleandoc of the literal, with or without the literal's trailing whitespace",
    "domain (ii) checks totality and parent/name consistency only",
]
BUDGET_S = {"quick": 55.0, "thorough": 1100.0}
SHRINK_MAX_EXAMPLES = 4000

_RECORDER = None


def _recorder_cls():
    global _RECORDER
    if _RECORDER is None:
        import griffe

        class Recorder(griffe.Extension):
            """Passive extension: records every event with the object it announces."""

            def __init__(self):
                self.events: list = []

            def on_instance(self, *, node, obj, **kw):
                self.events.append(("on_instance", obj))

            def on_module_instance(self, *, node, mod, **kw):
                self.events.append(("on_module_instance", mod))

            def on_class_instance(self, *, node, cls, **kw):
                self.events.append(("on_class_instance", cls))

            def on_function_instance(self, *, node, func, **kw):
                self.events.append(("on_function_instance", func))

            def on_attribute_instance(self, *, node, attr, **kw):
                self.events.append(("on_attribute_instance", attr))

            def on_members(self, *, node, obj, **kw):
                self.events.append(("on_members", obj))

            def on_module_members(self, *, node, mod, **kw):
                self.events.append(("on_module_members", mod))

            def on_class_members(self, *, node, cls, **kw):
                self.events.append(("on_class_members", cls))

            def on_alias(self, *, node, alias, **kw):
                self.events.append(("on_alias", alias))

        _RECORDER = Recorder
    return _RECORDER


# ------------------------------------------------------------------------------------------- running Griffe
def modname_of(case) -> str:
    return {"sub": "p.m", "init": "p", "deep": "p.q.m", "subinit": "p.q"}.get(case.get("layout"), "m")


def is_init_of(case) -> bool:
    return case.get("layout") in ("init", "subinit")


def run_griffe(case, text: str):
    """Analyse `text` through the entry point named by the case. Returns (module, events)."""
    import griffe

    rec = _recorder_cls()()
    layout = case.get("layout", "top")
    sub = layout == "sub"
    init = layout == "init"
    if case.get("entry") == "load":
        base = os.environ.get("VERIF_TMP") or ("/dev/shm" if os.access("/dev/shm", os.W_OK) else None)
        tmp = Path(tempfile.mkdtemp(prefix="verif-C01-load-", dir=base))
        try:
            if sub:
                (tmp / "p").mkdir()
                (tmp / "p" / "__init__.py").write_text("")
                (tmp / "p" / "m.py").write_text(text)
            elif init:
                (tmp / "p").mkdir()
                (tmp / "p" / "__init__.py").write_text(text)
            elif layout in ("deep", "subinit"):
                (tmp / "p" / "q").mkdir(parents=True)
                (tmp / "p" / "__init__.py").write_text("")
                if layout == "deep":
                    (tmp / "p" / "q" / "__init__.py").write_text("")
                    (tmp / "p" / "q" / "m.py").write_text(text)
                else:
                    (tmp / "p" / "q" / "__init__.py").write_text(text)
            else:
                (tmp / "m.py").write_text(text)
            exts = griffe.load_extensions(rec)
            top = call(
                "total",
                griffe.load,
                "m" if layout == "top" else "p",
                search_paths=[str(tmp)],
                allow_inspection=False,
                extensions=exts,
                what="griffe.load(allow_inspection=False)",
            )
            if sub:
                mod = top.members["m"]
            elif layout == "deep":
                mod = top.members["q"].members["m"]
            elif layout == "subinit":
                mod = top.members["q"]
            else:
                mod = top
        finally:
            shutil.rmtree(tmp, ignore_errors=True)
        return mod, rec.events
    exts = griffe.load_extensions(rec)
    lc = griffe.LinesCollection()
    root = Path("/nonexistent/verif-c01")
    parent = None
    if sub:
        fp = root / "p" / "m.py"
        parent = griffe.Module("p", filepath=root / "p" / "__init__.py")
    elif init:
        fp = root / "p" / "__init__.py"
    elif layout == "deep":
        fp = root / "p" / "q" / "m.py"
        parent = griffe.Module("q", filepath=root / "p" / "q" / "__init__.py", parent=griffe.Module("p", filepath=root / "p" / "__init__.py"))
    elif layout == "subinit":
        fp = root / "p" / "q" / "__init__.py"
        parent = griffe.Module("p", filepath=root / "p" / "__init__.py")
    else:
        fp = root / "m.py"
    lc[fp] = text.splitlines(keepends=False)
    mod = call("total", griffe.visit, {"init": "p", "subinit": "q"}.get(layout, "m"), filepath=fp, code=text, extensions=exts, parent=parent, lines_collection=lc, what="griffe.visit")
    return mod, rec.events


# ------------------------------------------------------------------------------------------- comparison
def _gkind(member) -> str:
    return "alias" if member.is_alias else member.kind.value


def _dump(node) -> str:
    return ast.dump(node, annotate_fields=False, include_attributes=False)


def _parse_slice(seg: list):
    """Statements obtained by parsing source lines `seg` as they stand (an indented slice is wrapped in `if 1:`)."""
    src = "\n".join(seg) + "\n"
    try:
        if seg and seg[0][:1] in (" ", "\t"):
            return ast.parse("if 1:\n" + src).body[0].body
        return ast.parse(src).body
    except SyntaxError:
        return None


class Judge:
    def __init__(self, case, text: str, binder: Binder, events: list):
        self.case = case
        self.text = text
        self.lines = text.splitlines(keepends=False)
        self.binder = binder
        self.events = events
        self.fails: list[Fail] = []
        self.load = case.get("entry") == "load"
        self.tree_objs: list = []  # (member, container) of every object/alias found in the final tree

    def fail(self, clause: str, kind: str, msg: str) -> None:
        self.fails.append(Fail(clause, kind, f"{msg}\n--- source ---\n{self.text}"))

    # ---- one scope
    def scope(self, ref: c01_ref.Scope, obj) -> None:
        members = call("total", lambda: dict(obj.members), what="members")
        placeholders = {n for n, m in members.items() if m.is_alias and n.endswith("/*")}
        names = [n for n in members if n not in placeholders]
        for n in placeholders:
            self.tree_objs.append((members[n], obj))
        all_names = list(dict.fromkeys(list(ref.state) + sorted(ref.tainted) + names))
        for name in all_names:
            cands = ref.state.get(name, [])
            tainted = name in ref.tainted
            acceptable = list(ref.history.get(name, [])) + [None] if tainted else list(cands)
            member = members.get(name)
            where = f"{ref.path}.{name}"
            if member is None:
                if acceptable and None not in acceptable:
                    c = acceptable[-1]
                    self.fail("members", f"missing:{c.kind}:{c.mode}{':init' if c.via_init is not None else ''}", f"{where}: bound at line {c.node.lineno} as {c.kind}, no member")
                continue
            gk = _gkind(member)
            real = [c for c in acceptable if c is not None]
            if not real:
                if self.load and name == "__init__" and not member.is_alias and not member.lineno:
                    continue  # synthesized by the built-in dataclasses extension
                self.fail("members", f"extra:{gk}", f"{where}: member of kind {gk} (lines {self._span(member)}) but no statement binds this name in this scope")
                continue
            self.tree_objs.append((member, obj))
            same = [c for c in real if c.kind == gk]
            if not same:
                exp = "/".join(sorted({c.kind for c in real}))
                modes = "/".join(sorted({c.mode for c in real}))
                self.fail("kind", f"{exp}->{gk}:{modes}", f"{where}: surviving binding should be {exp} (line(s) {[c.node.lineno for c in real]}), member is {gk} at {self._span(member)}")
                continue
            span = self._span(member)
            chosen = None
            for c in same:
                if span[1] == c.node.end_lineno and span[0] in self._ok_starts(c):
                    chosen = c
            if chosen is None:
                c = same[-1]
                ambiguous = len(real) > 1 or tainted
                if ambiguous:
                    self.fail("span", f"{gk}:no-candidate", f"{where}: member spans {span}, acceptable bindings span {[x.span for x in same]}")
                else:
                    feature = "decorated" if getattr(c.node, "decorator_list", None) else "plain"
                    self.fail("span", f"{gk}:{feature}", f"{where}: member spans {span}, source statement spans {sorted(self._ok_starts(c))}..{c.node.end_lineno}")
                chosen = c
                span_ok = False
            else:
                span_ok = True
            self.object(ref, obj, name, member, chosen, span_ok, definite=(len(real) == 1 and not tainted and None not in acceptable))
        self.scope_maps(ref, obj)

    @staticmethod
    def _span(member) -> tuple:
        if member.is_alias:
            return (member.alias_lineno, member.alias_endlineno)
        return (member.lineno, member.endlineno)

    @staticmethod
    def _ok_starts(c) -> set:
        decs = getattr(c.node, "decorator_list", None)
        if decs:
            if c.kind == "attribute":  # property: the statement does not say which line starts the object
                return {decs[0].lineno, c.node.lineno}
            return {decs[0].lineno}
        return {c.node.lineno}

    # ---- one object
    def object(self, ref, container, name: str, o, c, span_ok: bool, definite: bool) -> None:
        where = f"{ref.path}.{name}"
        # parent / path
        if o.parent is not container:
            self.fail("kind", "parent", f"{where}: parent is {getattr(o.parent, 'path', o.parent)!r}, expected the container object {container.path!r}")
        if o.path != f"{container.path}.{name}" or o.name != name:
            self.fail("kind", "path", f"{where}: path {o.path!r} / name {o.name!r}")
        is_def = isinstance(c.node, (ast.FunctionDef, ast.AsyncFunctionDef, ast.ClassDef))
        # slicing
        if span_ok:
            lo, hi = self._span(o)
            seg = self.lines[lo - 1 : hi]
            body = _parse_slice(seg)
            expect = {_dump(c.node)}
            if is_def and c.kind == "attribute" and lo == c.node.lineno and c.node.decorator_list:
                bare = ast.parse(ast.unparse(c.node)).body[0]
                bare.decorator_list = []
                expect = {_dump(bare)}
            if body is None or len(body) != 1 or _dump(body[0]) not in expect:
                self.fail("slice", c.kind, f"{where}: lines {lo}..{hi} do not delimit exactly the binding statement: {seg!r}")
            if not o.is_alias:
                got_lines = call("slice", lambda: o.lines, what="obj.lines")
                got_source = call("slice", lambda: o.source, what="obj.source")
                if got_lines != seg:
                    self.fail("slice", "lines", f"{where}: obj.lines {got_lines!r} != source lines {lo}..{hi} {seg!r}")
                elif got_source != textwrap.dedent("\n".join(seg)):
                    self.fail("slice", "source", f"{where}: obj.source {got_source!r}")
        # alias target
        if o.is_alias:
            if c.target is not None and o.target_path != c.target:
                self.fail("imports", "target", f"{where}: alias target {o.target_path!r}, import statement at line {c.node.lineno} means {c.target!r}")
        # decorators
        if is_def and c.kind in ("function", "class"):
            decs = c.node.decorator_list
            got = list(o.decorators)
            if len(got) != len(decs):
                self.fail("decorators", "count", f"{where}: {len(got)} decorators, source has {len(decs)}")
            else:
                for g, d in zip(got, decs):
                    if (g.lineno, g.endlineno) != (d.lineno, d.end_lineno):
                        self.fail("decorators", "span", f"{where}: decorator spans {(g.lineno, g.endlineno)}, source {(d.lineno, d.end_lineno)}")
                    try:
                        same = _dump(ast.parse(str(g.value), mode="eval").body) == _dump(d)
                    except SyntaxError:
                        same = False
                    if not same:
                        self.fail("decorators", "value", f"{where}: decorator value {str(g.value)!r} is not the source decorator {ast.unparse(d)!r}")
        # labels
        if is_def and not o.is_alias:
            labels = set(o.labels)
            if c.labels is not None and labels & DECORATOR_LABELS != c.labels:
                self.fail("labels", "+".join(sorted(c.labels ^ (labels & DECORATOR_LABELS))), f"{where}: decorator labels {sorted(labels & DECORATOR_LABELS)}, expected {sorted(c.labels)}")
            if c.kind != "class" and ("async" in labels) != c.is_async:
                self.fail("labels", "async", f"{where}: async label {'async' in labels}, source is {'async def' if c.is_async else 'def'}")
        # docstring
        if not o.is_alias:
            got = o.docstring
            if c.doc is not None:
                if got is None:
                    self.fail("docstring", f"missing:{c.kind}", f"{where}: no docstring, source has one at line {c.doc.lineno}")
                else:
                    if got.value not in doc_texts(c.doc):
                        self.fail("docstring", "text", f"{where}: docstring {got.value!r}, literal cleans to {sorted(doc_texts(c.doc))!r}")
                    if (got.lineno, got.endlineno) != (c.doc.lineno, c.doc.end_lineno):
                        self.fail("docstring", "span", f"{where}: docstring spans {(got.lineno, got.endlineno)}, literal spans {(c.doc.lineno, c.doc.end_lineno)}")
            elif got is not None:
                # Griffe documents that a re-assignment keeps the docstring of the member it replaces
                # ("forward previous docstring instead of erasing it"): accepted for assignments, from any earlier
                # binding of the same name in this scope.
                forwarded = []
                if not is_def:
                    for h in ref.history.get(name, []):
                        if h is c:
                            break
                        if h.doc is not None:
                            forwarded.append(h.doc)
                ok = any(got.value in doc_texts(d) and (got.lineno, got.endlineno) == (d.lineno, d.end_lineno) for d in forwarded)
                if not ok:
                    nxt = self._feature_after(c)
                    self.fail("docstring", f"unexpected:{c.kind}:{nxt}", f"{where}: docstring {got.value!r} (lines {got.lineno}..{got.endlineno}) but no string statement follows the binding at line {c.node.lineno} in its statement list")
        # runtime
        if c.guarded is not None and bool(o.runtime) != (not c.guarded):
            self.fail("runtime", f"{'guarded' if c.guarded else 'unguarded'}:{c.kind}", f"{where}: runtime={o.runtime}, the binding at line {c.node.lineno} is {'inside' if c.guarded else 'outside'} the body of `if TYPE_CHECKING:`")
        # visibility
        if definite:
            self.visibility(ref, name, o, c)
        # recurse
        if c.kind == "class" and c.child is not None and not o.is_alias:
            self.scope(c.child, o)

    def _feature_after(self, c) -> str:
        """Structural feature of the binding statement, for bucketing."""
        if isinstance(c.node, ast.Assign) and len(c.node.targets) > 1:
            return "multi-target"
        return "nest" if c.nest else "flat"

    def visibility(self, ref, name: str, o, c) -> None:
        where = f"{ref.path}.{name}"
        special = name.startswith("__") and name.endswith("__")
        private = name.startswith("_") and not special
        class_private = ref.kind == "class" and name.startswith("__") and not name.endswith("__")
        got = {
            "is_special": bool(o.is_special),
            "is_private": bool(o.is_private),
            "is_class_private": bool(o.is_class_private),
        }
        exp = {"is_special": special, "is_private": private, "is_class_private": class_private}
        hist = ref.history.get(name, [])
        mixed = len({h.kind == "alias" for h in hist}) > 1
        imported = None
        if not mixed and not (name in ref.imports and ref.imports[name] is None):
            imported = name in ref.imports
            got["is_imported"] = bool(o.is_imported)
            exp["is_imported"] = imported
        exports = self.exports_of(ref)
        if exports is not UNKNOWN:
            listed = exports is not None and name in [e for e in exports if isinstance(e, str)]
            got["is_exported"] = bool(o.is_exported)
            exp["is_exported"] = listed if ref.kind == "module" else False
            if imported is not None:
                got["is_public"] = bool(o.is_public)
                if ref.kind == "module" and exports is not None:
                    exp["is_public"] = listed
                else:
                    exp["is_public"] = (not private) and (not imported)
        for k in exp:
            if got[k] != exp[k]:
                feature = ""
                if k == "is_public":
                    feature = ":empty-all" if (ref.kind == "module" and exports == []) else (":all" if exports is not None and ref.kind == "module" else ":no-all")
                self.fail("visibility", f"{k}{feature}", f"{where}: {k}={got[k]}, documented table gives {exp[k]} (special={special} private={private} imported={imported} __all__={exports if exports is not UNKNOWN else '?'})")

    def exports_of(self, ref):
        """Reference value of `exports` for a scope (None: no __all__; UNKNOWN: not decidable from the text alone)."""
        if ref.kind != "module":
            return None
        exports = ref.exports
        if exports is not None and exports is not UNKNOWN and self.load and any(not isinstance(e, str) for e in exports):
            return UNKNOWN  # the loader expands spliced names against whatever modules are loaded
        return exports

    # ---- imports / exports of a scope
    def scope_maps(self, ref, obj) -> None:
        skip = {n for n, t in ref.imports.items() if t is None}
        got = {n: t for n, t in dict(obj.imports).items() if n not in skip}
        exp = {n: t for n, t in ref.imports.items() if t is not None}
        if got != exp:
            diff = sorted(set(got.items()) ^ set(exp.items()))
            self.fail("imports", "map", f"{ref.path}: imports map differs from the import statements: {diff}")
        exp_e = self.exports_of(ref)
        if ref.kind == "module" and exp_e is not UNKNOWN:
            gexp = obj.exports
            norm = None if gexp is None else [e if isinstance(e, str) else ("name", getattr(e, "path", repr(e))) for e in gexp]
            if norm != (None if exp_e is None else list(exp_e)):
                self.fail("exports", "value", f"{ref.path}: exports {norm!r}, __all__ in the source gives {exp_e!r}")

    # ---- module level
    def module(self, mod) -> None:
        root = self.binder.root
        if mod.path != root.path:
            self.fail("kind", "module-path", f"module path {mod.path!r}, expected {root.path!r}")
        got = mod.docstring
        if root.doc is not None:
            if got is None:
                self.fail("docstring", "missing:module", "module docstring missing")
            else:
                if got.value not in doc_texts(root.doc):
                    self.fail("docstring", "text", f"module docstring {got.value!r}, literal cleans to {sorted(doc_texts(root.doc))!r}")
                if (got.lineno, got.endlineno) != (root.doc.lineno, root.doc.end_lineno):
                    self.fail("docstring", "span", f"module docstring spans {(got.lineno, got.endlineno)}, literal spans {(root.doc.lineno, root.doc.end_lineno)}")
        elif got is not None:
            self.fail("docstring", "unexpected:module", f"module docstring {got.value!r} but the first statement is not a string literal")
        self.scope(root, mod)
        self.check_events(mod)

    # ---- extension events
    def check_events(self, mod) -> None:
        pos: dict = {}
        for i, (ev, obj) in enumerate(self.events):
            pos.setdefault((ev, id(obj)), []).append(i)
        specific = {"module": "on_module_instance", "class": "on_class_instance", "function": "on_function_instance", "attribute": "on_attribute_instance"}
        members_ev = {"module": "on_module_members", "class": "on_class_members"}

        def one(ev, obj, what):
            p = pos.get((ev, id(obj)), [])
            if len(p) != 1:
                self.fail("events", f"{ev}:{len(p)}", f"{what}: {ev} fired {len(p)} times (expected exactly once)")
                return None
            return p[0]

        def announce(obj, what):
            k = obj.kind.value
            i1 = one("on_instance", obj, what)
            i2 = one(specific[k], obj, what)
            if i1 is not None and i2 is not None and i2 < i1:
                self.fail("events", "order:specific-first", f"{what}: {specific[k]} before on_instance")
            m1 = m2 = None
            if k in members_ev:
                m1 = one("on_members", obj, what)
                m2 = one(members_ev[k], obj, what)
                if i1 is not None and m1 is not None and m1 < i1:
                    self.fail("events", "order:members-before-instance", f"{what}: on_members before on_instance")
            return i1, (m1 if m2 is None or m1 is None else max(m1, m2)), (m1 if m1 is not None else m2)

        top = announce(mod, mod.path)
        bounds = {id(mod): top}
        for member, container in self.tree_objs:
            what = f"{container.path}.{member.name}"
            b = bounds.get(id(container))
            if member.is_alias:
                i = one("on_alias", member, what)
                last = i
            else:
                if not member.lineno:
                    continue
                r = announce(member, what)
                bounds[id(member)] = r
                i = r[0]
                last = r[1] if r[1] is not None else i
            if b is None or i is None:
                continue
            start, _, first_members = b
            if start is not None and i < start:
                self.fail("events", "order:member-before-parent", f"{what}: announced before its parent's on_instance")
            if first_members is not None and last is not None and last > first_members:
                self.fail("events", "order:members-before-last-member", f"{what}: announced (event #{last}) after its parent's on_members (event #{first_members})")


# ------------------------------------------------------------------------------------------- features / describe
_LAST: dict = {}


def features(case, binder: Binder, text: str) -> tuple:
    cls: set = set()
    nontrivial = False

    def walk(scope, depth):
        nonlocal nontrivial
        for name, hist in scope.history.items():
            if len(hist) > 1:
                cls.add("dup-name")
                nontrivial = True
            cands = scope.state.get(name, [])
            if len(cands) > 1:
                cls.add("either-accepted")
            for i, h in enumerate(hist):
                if h.nest and h.via_init is None:
                    cls.add("def-in-compound")
                    nontrivial = True
                if h.mode == "keeps" and i > 0:
                    cls.add("cond-reassign")
                    if any(p.kind == "attribute" for p in hist[:i]):
                        cls.add("cond-reassign-over-attr")
                    if any(p.kind != "attribute" for p in hist[:i]):
                        # the statement only gives the rule for attributes: either binding accepted (see findings/C01.md)
                        cls.add("open:cond-reassign-over-" + "/".join(sorted({p.kind for p in hist[:i] if p.kind != "attribute"})))
                if scope.kind == "module" and name == "__init__" and h.kind == "function":
                    cls.add("module-level-__init__")
                if scope.kind == "class" and name == "__all__":
                    cls.add("instance-__all__" if h.via_init is not None else "class-level-__all__")
                if h.via_init is not None:
                    cls.add("init-attr")
                    nontrivial = True
                if h.is_setter:
                    cls.add("property-setter")
                if name == "__all__" and h.nest and i > 0 and scope.kind == "module":
                    cls.add("__all__-reassigned-in-block")
                    if scope.exports is not UNKNOWN:
                        cls.add("__all__-conditional-kept")
                if isinstance(h.node, ast.ImportFrom) and h.node.level > 1:
                    cls.add("relative-import-level2")
                if getattr(h.node, "decorator_list", None):
                    cls.add("decorated")
                    nontrivial = True
                    if h.labels:
                        cls.add("label-decorator")
                    if h.kind == "attribute":
                        cls.add("property")
                if h.guarded:
                    cls.add("type-guarded")
                if h.doc is not None and h.kind == "attribute" and not isinstance(h.node, (ast.FunctionDef, ast.AsyncFunctionDef)):
                    cls.add("attr-docstring")
                if h.doc is not None and h.kind in ("function", "class"):
                    cls.add("docstring")
                if h.kind == "alias":
                    cls.add("import")
                    if isinstance(h.node, ast.ImportFrom) and h.node.level:
                        cls.add("relative-import")
                if h.child is not None:
                    if depth >= 1:
                        cls.add("nested-class")
                        nontrivial = True
                    walk(h.child, depth + 1)
        if scope.tainted:
            cls.add("tainted-name")
        if scope.wildcards:
            cls.add("wildcard")
        if scope.kind == "module" and scope.exports is not None:
            cls.add("__all__")
            nontrivial = True
            if scope.exports == []:
                cls.add("__all__-empty")

    walk(binder.root, 0)

    def model(stmts):
        for st_ in stmts or []:
            if not isinstance(st_, dict):
                continue
            k = st_.get("k")
            if k == "idef":
                cls.add("init-nested-" + st_["form"])
            elif k == "def" and c01_mod.TAILS[st_.get("tail", 0)] in ("selfattr", "nested_init") and st_.get("name") != "__init__":
                cls.add("self-assign-outside-class-__init__")
            elif k in ("while", "match"):
                cls.add("open-block:" + k)
            elif k == "if" and (st_.get("eliftc") and st_.get("elifs")):
                cls.add("elif-type-checking")
            for v in st_.values():
                if isinstance(v, list):
                    model(v)
                    for x in v:
                        if isinstance(x, list):
                            model(x)
            if isinstance(st_.get("impl"), dict):
                model([st_["impl"]])

    model(case.get("body"))
    if any(c is not None and c.guarded is None for sc in [binder.root] for cands in sc.state.values() for c in cands):
        cls.add("type-guard-left-open")
    cls.add("entry:" + case.get("entry", "visit"))
    cls.add("layout:" + case.get("layout", "top"))
    n = text.count("\n")
    cls.add("lines:" + ("<=10" if n <= 10 else "<=40" if n <= 40 else ">40"))
    return nontrivial, tuple(sorted(cls))


def describe(case):
    info = _LAST.get("info")
    if _LAST.get("case") is not case or info is None:
        return None, ("undescribed",), None
    key, classes, sample = info
    return key, classes, sample


# ------------------------------------------------------------------------------------------- entry points
def check_case(case) -> list[Fail]:
    kind = case.get("kind", "mod")
    if kind == "wide":
        from vp.gen import c01_wide

        return c01_wide.check(case, _LAST)
    if kind == "text":  # replay of a raw text (pysource_codegen cases, hand-minimised witnesses)
        from vp.gen import c01_wide

        if case.get("judge"):
            text = case["text"]
        else:
            return c01_wide.check_text(case, case["text"], _LAST)
    else:
        text = c01_mod.render(case)
    binder = Binder(text, modname_of(case), is_init=is_init_of(case))
    nontrivial, classes = features(case, binder, text)
    _LAST["case"] = case
    _LAST["info"] = (digest(text) if nontrivial else None, classes, {"entry": case.get("entry", "visit"), "module": modname_of(case), "source": text} if nontrivial and len(text) < 1500 else None)
    mod, events = run_griffe(case, text)
    judge = Judge(case, text, binder, events)
    judge.module(mod)
    # one Fail per bucket is enough for one case
    seen = set()
    out = []
    for f in judge.fails:
        if f.bucket not in seen:
            seen.add(f.bucket)
            out.append(f)
    return out


def strategy(ctx):
    from hypothesis import strategies as st

    from vp.gen import c01_wide

    mods = c01_mod.modules(max_depth=ctx.scale(3, 3))
    return c01_mod.weighted((mods, 5), (c01_wide.programs(), 1))


def run_shard(ctx) -> None:
    strat = strategy(ctx)
    if ctx.quick:
        # ~15-20 ms per case single-process (generation included): 2000 cases ~ 35 s per shard on an idle core.
        # Chunked so that an exhausted budget (busy machine) ends the search instead of generating unused examples.
        for i in range(5):
            if ctx.out_of_budget():
                break
            ctx.run_hypothesis(strat, check_case, max_examples=400, describe=describe, salt="" if i == 0 else f"q{i}")
        return
    from vp.gen import c01_wide

    c01_wide.run_pysource(ctx, check_case, describe)
    # chunks, so that an exhausted budget ends the search (Hypothesis would otherwise keep generating unused examples);
    # the first chunk uses the salt that `strategy` announces to the shrinker
    for i in range(6):
        if ctx.out_of_budget():
            break
        ctx.run_hypothesis(strat, check_case, max_examples=8000, describe=describe, salt="" if i == 0 else f"chunk{i}")
