"""C14 — Module discovery matches the import system, independent of listing order.

Domain: generated file trees over 1..3 search paths (vp/gen/c14_fs.py), optionally one more directory reachable
through a .pth file; for each layout Griffe loads the top-level name `p` statically (allow_inspection=False)
under a baseline listing order, under two further injected listing orders, and requested by the path of its
top-level directory (as Path and as str).
Oracle: CPython's own finders, no module body executed (the path-entry finders behind PathFinder.find_spec,
pkgutil.iter_modules, pkgutil.extend_path, site.addsitedir).

Clauses (names used in Fail.clause)
  loaded-is-importable      every module in Griffe's tree is importable by CPython at that dotted name from that file
                            (namespace packages: from those directories), or is a stub-only module (.pyi file and no
                            source module for CPython at that name);
  first-match-wins          same, when CPython does import that name but from another file (precedence);
  walker-found-is-loaded    every source module CPython's package walker (pkgutil.iter_modules, descending into regular
                            packages) finds below `p` is in Griffe's tree at that dotted path with that file;
  classified                is_package / is_subpackage / is_namespace_package / is_namespace_subpackage / none, as the
                            CPython spec (regular package, namespace, plain module) dictates;
  listing-order-independent the tree (modules, files, flags, member names) is the same under every injected order;
  request-form-independent  ... and the same when requested as Path(dir) or str(dir) instead of "p".
  (history:*)               the first four clauses again on ONE loader: `p` by name with the first search path left out,
                            then that path put in force (insert_search_path / append_search_path / request by the path
                            of its `p` directory), then `p` by name again; judged for the search paths then in force.
"""

from __future__ import annotations

import os
from pathlib import Path

from vp.common.bootstrap import HarnessError
from vp.common.harness import Fail, call
from vp.common.harness import Fail as _Fail
from vp.gen import c14_fs as fs

ID = "C14"
LEVEL = "exploration"
RULE = (
    "Hypothesis-built file-tree layouts (1-3 search paths + optional .pth-added directory, depth <=3; per module name a set of forms: "
    ".py, .pyi, directory with init kind none/py/pyi/py+pyi, names from {a,b,c} plus names that are not identifiers but importable (0a, a-b, class, non-ASCII), native and foreign extension file names, .pyc/.pyo, non-module files, "
    "dotted file names, __pycache__ with bytecode and decoy sources; top-level modes regular/native namespace/pkgutil-style/"
    "pkg_resources-style/mixed), each loaded under 3 listing orders and 3 request forms and judged against CPython's finders. "
    "non-trivial = the requested top-level name exists in >=2 search paths, or some name exists both as file and as directory; "
    "distinct = distinct layout digest"
)
ASSUMPTIONS = [
    "CPython 3.12 path-entry finders (sys.path_hooks/FileFinder, combined as PathFinder._get_spec does and cross-checked against "
    "PathFinder.find_spec for top-level names), pkgutil.iter_modules, pkgutil.extend_path and site.addsitedir are the reference; "
    "no module body is executed",
    "Griffe is run with allow_inspection=False (static discovery); modules whose CPython origin is an extension or bytecode file cannot be "
    "loaded that way (loader: 'Cannot load compiled module without inspection'), so names at or below a compiled CPython origin are "
    "excluded from both directions; compiled file names (native, foreign, .pyc/.pyo) otherwise act as decoys. "
    "No compiled __init__ files are generated",
    "listing order is injected by wrapping os.walk and pathlib.Path.iterdir, the only enumeration primitives _griffe/finder.py uses",
    "pkgutil/pkg_resources-style namespace __init__ files are generated for the top-level package only and then in every portion "
    "(the packaging guide requires every portion to ship the same __init__); pkg_resources-style is judged like pkgutil-style; "
    "such a package is accepted as 'namespace package' although CPython's spec is a regular package with an extended __path__",
    ".pth files contain absolute directory lines, comments, blank lines and non-existing paths (no import lines, no relative lines); "
    "search paths are treated as site directories (that is what ModuleFinder does with .pth files)",
    "CPython's walker does not list init-less directories (namespace sub-packages), so modules below them are only checked in the "
    "direction 'loaded => importable'",
    "a .pyi-only module is 'stub-only' (accepted) unless CPython imports a source module at that very dotted name",
    "member order inside a module is not part of 'the resulting tree' (dictionary order follows load order); the order of the "
    "directory list of a namespace package is",
    "pkg-style declarations are spelled at column 0, inside try/except (the guarded pkg_resources/pkgutil idiom), inside `if True:`, after a "
    "docstring/comment, with either quote; directory symlinks point to a sibling directory of the same package (no loops) and are judged like "
    "any directory (CPython's finders and pkgutil follow them)",
    "__init__.py bodies may define attributes/functions/classes and import names, some equal to sub-modules or sub-packages of that package "
    "(no effect on CPython's finders; the sub-module must still be loaded at its dotted path)",
    "search-path directory names are character prefixes of one another (sp, sp1, sp10, sp1x, sp10y) in drawn order",
    "reload clause: after load('p', submodules=False) a second, full load on the same loader and collection must give the complete tree "
    "(nothing else about loading one name twice into one collection is judged)",
    "history clause: the loader's modules/lines collections are replaced before each request (loading one name twice into one collection "
    "is not judged); an inserted/appended search path is not scanned for .pth files by either side",
    "no symlinks, module bodies are `x = 1`; non-identifier / keyword / non-ASCII file and directory names are generated below the top level "
    "and judged exactly like any other name (CPython's finders and pkgutil's walker accept every name without a dot); the requested "
    "top-level name itself is always `p`",
]
BUDGET_S = {"quick": 70.0, "thorough": 1100.0}
SHRINK_MAX_EXAMPLES = 4000

TOP = fs.TOP
_TMP_BASE: list = [None]
_OUTCOME: list = []  # classes observed by the last check_case (what CPython / Griffe made of the layout)


# ----------------------------------------------------------------------------------------------- Griffe side
def griffe_load(request, search_paths: list[Path], order, root: Path, **kwargs):
    """Tree summary of `griffe.load(request, ...)` under an injected listing order; None when not found."""
    import griffe

    with fs.listing_order(order):
        try:
            top = call(
                "total",
                griffe.load,
                request,
                search_paths=list(search_paths),
                allow_inspection=False,
                allowed=(ModuleNotFoundError,),
                what=f"griffe.load({_short(request, root)!r}) under listing order {order!r}",
                **kwargs,
            )
        except ModuleNotFoundError:
            return None
    return fs.griffe_tree(top, root)


def _short(p, root: Path) -> str:
    s = str(p)
    return s[len(str(root)) + 1 :] if s.startswith(str(root) + os.sep) else s


# ----------------------------------------------------------------------------------------------- judge
def _expected_flags(kind: str, is_top: bool) -> set[str]:
    if kind == "pkg":
        return {"is_package" if is_top else "is_subpackage", "is_init_module"}
    if kind == "ns":
        return {"is_namespace_package" if is_top else "is_namespace_subpackage"}
    return set()


def _compiled_at_or_above(view: fs.CPythonView, dotted: str) -> bool:
    parts = dotted.split(".")
    for i in range(1, len(parts) + 1):
        s = view.spec(".".join(parts[:i]))
        if s is None:
            return False
        if fs._compiled(s[1]):
            return True
    return False


def _why_not_importable(view: fs.CPythonView, dotted: str, file: str, root: Path) -> str:
    """Root-cause label for a module Griffe loaded from `file` that CPython cannot import at `dotted`."""
    parent = dotted.rpartition(".")[0]
    ps = view.spec(parent) if parent else None
    if parent and ps is None:
        return "parent-not-importable"
    if ps is not None and ps[2] is None:
        return "child-of-plain-module"
    if ps is not None:
        # the parent is a package: is the file inside one of the directories CPython searches for its children?
        d = os.path.dirname(file)
        if os.path.basename(file).split(".", 1)[0] == "__init__":
            d = os.path.dirname(d)
        locs = {_short(x, root) for x in ps[2]}
        if d not in locs:
            return f"outside-{ps[0]}-path"
    return "name-not-found"


def judge(tree: dict | None, view: fs.CPythonView, root: Path) -> list[Fail]:
    """Clauses 1-4 for one loaded tree against CPython's view."""
    fails: list[Fail] = []
    rel = lambda p: _short(p, root)  # noqa: E731
    tspec = view.spec(TOP)
    if tspec is not None and fs._compiled(tspec[1]):
        return fails  # the top-level name is a compiled module for CPython: outside static discovery (ASSUMPTIONS)
    dotted = TOP

    def Fail(clause, kind, message):  # noqa: N802 - every failure of this function is about one module
        return _Fail(clause, kind, message, {"module": dotted})

    walked = view.walk(TOP)
    if tree is None:
        if tspec is not None:
            fails.append(Fail("walker-found-is-loaded", f"top-not-found:{tspec[0]}", f"CPython finds {TOP} ({tspec[0]}, origin {rel(tspec[1])}, path {[rel(x) for x in tspec[2] or []]}); Griffe raises ModuleNotFoundError"))
        return fails
    # clause 1 (+3, +4): everything Griffe loaded
    for dotted, info in tree.items():
        is_top = "." not in dotted
        if info["path"] != dotted:
            fails.append(Fail("classified", "path-attribute", f"module stored at {dotted} has path {info['path']}"))
        if _compiled_at_or_above(view, dotted):
            continue  # CPython would take a compiled file here; what static loading should do instead is not stated
        s = view.spec(dotted)
        file = info["file"]
        flags = set(info["flags"])
        if isinstance(file, list):
            pkg_style = is_top and view.pkg_style_top and s is not None and s[0] == "pkg"
            if s is None:
                why = "top" if is_top else _why_not_importable(view, dotted, file[0] + "/__init__.py", root)
                fails.append(Fail("loaded-is-importable", f"namespace-not-importable:{why}", f"Griffe loaded {dotted} as namespace package {file}; CPython cannot import {dotted}"))
                continue
            if s[0] != "ns" and not pkg_style:
                fails.append(Fail("loaded-is-importable", f"namespace-but-{s[0]}", f"Griffe loaded {dotted} as namespace package {file}; for CPython it is a {s[0]} with origin {rel(s[1])}"))
                continue
            portions = {rel(x) for x in s[2]}
            extra = [x for x in file if x not in portions]
            if extra:
                fails.append(Fail("loaded-is-importable", "namespace-portion", f"Griffe's namespace package {dotted} has portions {file}; CPython's portions are {sorted(portions)}"))
            if flags != _expected_flags("ns", is_top):
                fails.append(Fail("classified", "namespace-flags", f"{dotted} is a namespace {'package' if is_top else 'sub-package'} but Griffe's flags are {sorted(flags)}"))
            continue
        if file is None:
            fails.append(Fail("loaded-is-importable", "no-filepath", f"Griffe loaded {dotted} without a file path"))
            continue
        if file.endswith(".pyi"):
            # "... or is a stub-only module": accepted unless CPython imports a *source* module at that very name
            # (then the name is not stub-only and Griffe lost the runtime module).
            if s is not None and s[1] is not None and s[1].endswith(".py"):
                fails.append(Fail("loaded-is-importable", "stub-instead-of-source", f"Griffe loaded {dotted} from stubs {file} only; CPython imports {dotted} from {rel(s[1])}"))
            exp = {"is_package" if is_top else "is_subpackage", "is_init_module"} if os.path.basename(file) == "__init__.pyi" else set()
            if flags != exp:
                fails.append(Fail("classified", "stub-flags", f"stub-only {dotted} ({file}) has flags {sorted(flags)}, expected {sorted(exp)}"))
            continue
        if s is None:
            why = _why_not_importable(view, dotted, file, root)
            fails.append(Fail("loaded-is-importable", f"not-importable:{why}", f"Griffe loaded {dotted} from {file}; CPython cannot import {dotted}"))
            continue
        if s[1] is None or rel(s[1]) != file:
            if s[1] is None:
                origin = f"namespace {[rel(x) for x in s[2]]}"
                how = "namespace"
            else:
                origin = rel(s[1])
                d1, d2 = os.path.dirname(file), os.path.dirname(origin)
                if os.path.basename(file) == "__init__.py":
                    d1 = os.path.dirname(d1)
                if os.path.basename(origin) == "__init__.py":
                    d2 = os.path.dirname(d2)
                how = "same-directory" if d1 == d2 else "other-portion"
            fails.append(Fail("first-match-wins", f"{how}:{s[0]}", f"Griffe loaded {dotted} from {file}; CPython imports {dotted} from {origin}"))
            continue
        if flags != _expected_flags(s[0], is_top):
            fails.append(Fail("classified", f"{s[0]}-flags", f"{dotted} ({file}) is a {s[0]} for CPython but Griffe's flags are {sorted(flags)}"))
    # clause 2 (+3): everything the walker finds (source modules only, see ASSUMPTIONS)
    for dotted, (kind, origin, compiled) in walked.items():
        if compiled or kind == "ns" or origin is None:
            continue
        if dotted == TOP and view.pkg_style_top:
            continue  # a pkg-style namespace __init__ is not loaded as a module (it only extends __path__)
        info = tree.get(dotted)
        if info is None:
            fails.append(Fail("walker-found-is-loaded", f"missing:{kind}", f"CPython's walker finds {dotted} ({kind}) at {rel(origin)}; Griffe did not load {dotted}"))
        elif info["file"] != rel(origin):
            # already reported by clause 1 unless Griffe's module is a namespace
            if isinstance(info["file"], list):
                fails.append(Fail("walker-found-is-loaded", f"other-file:{kind}", f"CPython's walker finds {dotted} at {rel(origin)}; Griffe has {info['file']} there"))
    return fails


def _pkg_style_top(view: fs.CPythonView) -> bool:
    raw = view.spec(TOP)
    if raw is None or raw[0] != "pkg" or not raw[1] or not raw[1].endswith("__init__.py"):
        return False
    text = Path(raw[1]).read_text(encoding="utf8")
    return "extend_path(__path__, __name__)" in text or "declare_namespace(__name__)" in text


def _diff(a: dict | None, b: dict | None) -> str:
    if a is None or b is None:
        return f"{'not found' if a is None else 'found'} vs {'not found' if b is None else 'found'}"
    out = []
    for k in sorted(set(a) | set(b)):
        if a.get(k) != b.get(k):
            out.append(f"{k}: {a.get(k)} vs {b.get(k)}")
    return "; ".join(out)[:700]


def _diff_kind(a: dict | None, b: dict | None) -> str:
    if a is None or b is None:
        return "found-or-not"
    if set(a) != set(b):
        return "module-set"
    for k in sorted(a):
        if a[k]["file"] != b[k]["file"]:
            if isinstance(a[k]["file"], list) and isinstance(b[k]["file"], list) and sorted(a[k]["file"]) == sorted(b[k]["file"]):
                return "portion-order"
            return "module-file"
    return "module-attributes"


# ----------------------------------------------------------------------------------------------- entry points
def check_case(case) -> list[Fail]:
    layout = case["layout"]
    if Path(TOP).exists() or Path(f"{TOP}.py").exists():
        raise HarnessError(f"{TOP} exists relative to the working directory {os.getcwd()}")
    fails: list[Fail] = []
    seen: set = set()

    def add(new):
        for f in new:
            key = (f.clause, f.kind, (f.detail or {}).get("module"))
            if key not in seen:
                seen.add(key)
                fails.append(f)

    with fs.case_dir(_TMP_BASE[0]) as root:
        paths = fs.materialise(layout, root)
        eff = fs.CPythonView.effective_search_paths(paths)
        view = _make_view(eff)
        base = griffe_load(TOP, paths, "sorted", root)
        add(judge(base, view, root))
        _OUTCOME[:] = _outcome(view, base)
        judged = [base]
        # clause 5: listing order
        for order in case["orders"]:
            if order == "sorted":
                continue
            t = griffe_load(TOP, paths, order, root)
            if t != base:
                add([Fail("listing-order-independent", _diff_kind(base, t), f"tree under listing order 'sorted' differs from tree under {order!r}: {_diff(base, t)}")])
                if t not in judged:
                    judged.append(t)
                    add(judge(t, view, root))
        # clause 6: requested by the path of its top-level directory (Path and str)
        tspec = view.spec(TOP)
        if tspec is not None and tspec[2]:
            dirs = [d for d in tspec[2] if os.path.isdir(d)]
            if dirs:
                d = dirs[case.get("req", 0) % len(dirs)]
                for request in (Path(d), d):
                    t = griffe_load(request, paths, "sorted", root)
                    if t != base:
                        how = "Path" if isinstance(request, Path) else "str"
                        add([Fail("request-form-independent", f"{how}:{_diff_kind(base, t)}", f"tree requested as {TOP!r} differs from tree requested as {how}({_short(d, root)!r}): {_diff(base, t)}")])
        # clause 8: a full load after a top-module-only load on the same loader and collection
        by_path = None
        if case.get("hist") == "path" and tspec is not None and tspec[2]:
            dirs = [d for d in tspec[2] if os.path.isdir(d)]
            by_path = Path(dirs[0]) if dirs else None
        add(_reload_history(by_path, paths, root, base, view))
        # clause 7: the same on ONE loader with a history (search paths change between requests)
        if case.get("hist") and len(paths) >= 2:
            add(_history(case["hist"], paths, root))
    return fails


def _make_view(eff: list[str]) -> fs.CPythonView:
    view = fs.CPythonView(eff)
    if _pkg_style_top(view):
        view = fs.CPythonView(eff, pkg_style_top=True)
    return view


def _history(op: str, paths: list[Path], root: Path) -> list[Fail]:
    """One GriffeLoader, three requests: `p` by name with the first search path left out; then the first search path
    is put in force (finder.insert_search_path(0, .) / finder.append_search_path(.) / a request by the path of its `p`
    directory, which lies outside the search paths); then `p` by name again. Every answer is judged by the CPython
    oracle for the search paths in force at that moment (kept here independently of the finder's own list). The
    loader's collections are replaced before each request: loading one name twice into one collection is not the subject."""
    import griffe

    first, later = paths[0], paths[1:]
    loader = griffe.GriffeLoader(search_paths=list(later), allow_inspection=False)
    in_force = fs.CPythonView.effective_search_paths(later)
    out: list[Fail] = []

    def request(req, label: str) -> None:
        loader.modules_collection = griffe.ModulesCollection()
        loader.lines_collection = griffe.LinesCollection()
        with fs.listing_order("sorted"):
            try:
                top = call("total", loader.load, req, allowed=(ModuleNotFoundError,), what=f"loader.load({_short(req, root)!r}) as {label} on one loader")
                tree = fs.griffe_tree(top, root)
            except ModuleNotFoundError:
                tree = None
        shown = [_short(x, root) for x in in_force]
        for f in judge(tree, _make_view(list(in_force)), root):
            out.append(Fail(f.clause, f"history:{f.kind}", f"[one loader, {label}, search paths in force {shown}] {f.message}", f.detail))

    request(TOP, "first request by name")
    if op == "path" and not (first / TOP).is_dir():
        op = "insert"
    if op == "append":
        loader.finder.append_search_path(first)
        if str(first) not in in_force:
            in_force.append(str(first))
        how = "finder.append_search_path"
    else:
        if str(first) not in in_force:
            in_force.insert(0, str(first))
        if op == "insert":
            loader.finder.insert_search_path(0, first)
            how = "finder.insert_search_path(0, .)"
        else:
            how = "a request by path outside the search paths"
            request(first / TOP, f"request by the path {_short(first / TOP, root)}")
    request(TOP, f"request by name after {how}")
    return out


def _reload_history(req_by_path, paths: list[Path], root: Path, base: dict | None, view: fs.CPythonView) -> list[Fail]:
    """One GriffeLoader and ONE modules collection: `p` is first loaded with submodules=False (top module only), then
    loaded again in full, by name or by the path of its top-level directory. The second answer must be the complete
    tree: judged by the oracle like any load, and equal to what a fresh loader returns."""
    import griffe

    loader = griffe.GriffeLoader(search_paths=list(paths), allow_inspection=False)
    out: list[Fail] = []
    with fs.listing_order("sorted"):
        try:
            call("total", loader.load, TOP, submodules=False, allowed=(ModuleNotFoundError,), what="loader.load('p', submodules=False)")
            second = req_by_path if req_by_path is not None else TOP
            top = call("total", loader.load, second, allowed=(ModuleNotFoundError,), what=f"loader.load({_short(second, root)!r}) after load('p', submodules=False) on the same loader")
            tree = fs.griffe_tree(top, root)
        except ModuleNotFoundError:
            tree = None
    label = "full load after load('p', submodules=False) on the same loader and collection"
    for f in judge(tree, view, root):
        out.append(Fail(f.clause, f"reload:{f.kind}", f"[{label}] {f.message}", f.detail))
    if tree != base and not out:
        out.append(Fail("request-form-independent", f"reload:{_diff_kind(base, tree)}", f"[{label}] tree differs from the one a fresh loader returns: {_diff(base, tree)}"))
    return out


def _outcome(view: fs.CPythonView, tree: dict | None) -> list[str]:
    tspec = view.spec(TOP)
    if tspec is None:
        top = "absent"
    elif fs._compiled(tspec[1]):
        top = "compiled"
    elif tspec[0] == "ns":
        top = f"namespace:{min(len(tspec[2]), 3)}-portions"
    elif tspec[0] == "pkg":
        top = "pkg-style-namespace" if view.pkg_style_top else "regular-package"
    else:
        top = "plain-module"
    out = [f"cpython-top:{top}", f"griffe-top:{'not-found' if tree is None else 'found'}"]
    if top not in ("absent", "compiled"):
        walked = view.walk(TOP)
        n = sum(1 for k, (kind, origin, compiled) in walked.items() if not compiled and origin)
        out.append(f"walker-source-modules:{'0' if n == 0 else '1-3' if n <= 3 else '4-9' if n <= 9 else '10+'}")
        if any(compiled for _, _, compiled in walked.values()):
            out.append("walker-compiled-modules")
    if tree is not None:
        n = len(tree)
        out.append(f"griffe-modules:{'1' if n == 1 else '2-4' if n <= 4 else '5-10' if n <= 10 else '11+'}")
        if any(isinstance(v["file"], list) and "." in k for k, v in tree.items()):
            out.append("griffe-namespace-subpackage")
        if any(isinstance(v["file"], str) and v["file"].endswith(".pyi") for v in tree.values()):
            out.append("griffe-stub-only-module")
    return out


def _features(case) -> set[str]:
    return fs.features(case["layout"])


def _describe(case):
    feats = _features(case)
    nontrivial = "shared-top" in feats or "file+dir" in feats
    key = case["layout"] if nontrivial else None
    classes = sorted(feats) + [f"order:{'perm' if isinstance(o, int) else o}" for o in case["orders"]] + list(_OUTCOME)
    _OUTCOME.clear()
    sample = None
    if nontrivial and "ns-several-portions" in feats:
        sample = case
    return key, classes, sample


# ----------------------------------------------------------------------------------------------- known findings
PYI_ONLY = "pyi-only-dir-is-package"


def _known_pyi_only(case, fail) -> bool:
    """A directory with `__init__.pyi` but no `__init__.py` is a namespace portion for CPython and a (stub) package
    for Griffe. Attributed only when such a directory collides with the same relative directory in another search
    path and the failure is about a module at or below it."""
    mod = (fail.detail or {}).get("module") if isinstance(fail.detail, dict) else None
    if not mod or fail.clause not in ("loaded-is-importable", "first-match-wins", "walker-found-is-loaded"):
        return False
    for _, rel in fs.pyi_only_collisions(case["layout"]):
        d = ".".join(rel)
        if mod == d or mod.startswith(d + "."):
            return True
    return False


PKGUTIL_FROM = "pkgutil-from-import-not-recognised"


def _known_pkgutil_from(case, fail) -> bool:
    """`from pkgutil import extend_path; __path__ = extend_path(__path__, __name__)` (the spelling of the pkgutil
    documentation) is not recognised by the finder's regular expressions: the package is taken as a regular package of
    the first search path. Attributed only when a top-level __init__.py of the layout uses that spelling."""
    return bool(fs.kf_tops(case["layout"])) and fail.clause in ("loaded-is-importable", "first-match-wins", "walker-found-is-loaded", "classified")


ALIAS_DIR = "imported-name-equals-initless-directory"


def _known_alias_dir(case, fail) -> bool:
    """`pkg/__init__.py` imports a name (`from os import path as tools`) equal to a sub-directory `pkg/tools/` that
    has no `__init__.py` but holds .py files: while placing those files the loader asks the *alias* whether it is a
    namespace package, which dereferences it: AliasResolutionError escapes from load()."""
    return fail.bucket.startswith("total/raises:AliasResolutionError") and bool(fs.alias_named_like_initless_dir(case["layout"]))


KNOWN = {PYI_ONLY: _known_pyi_only, PKGUTIL_FROM: _known_pkgutil_from, ALIAS_DIR: _known_alias_dir}


def strategy(ctx):
    from hypothesis import strategies as st

    def steer(case):
        if PYI_ONLY in ctx.known:
            case["layout"], case["steered"] = fs.steer_pyi_only(case["layout"])
        if ALIAS_DIR in ctx.known:
            case["layout"], case["steered_alias_dir"] = fs.steer_alias_named_like_initless_dir(case["layout"])
        if PKGUTIL_FROM in ctx.known:
            case["layout"], case["steered_kf"] = fs.steer_kf(case["layout"])
        return case

    return st.fixed_dictionaries(
        {
            "layout": fs.layouts(max_depth=3),
            "orders": st.tuples(st.sampled_from(["reversed", "reversed", 0, 1]), st.integers(0, 7)).map(list),
            "req": st.integers(0, 2),
            "hist": st.sampled_from(["insert", "append", "path", "path"]),
        }
    ).map(steer)


def run_shard(ctx) -> None:
    _TMP_BASE[0] = ctx.tmp

    def describe(case):
        if case.get("steered"):
            ctx.excluded(PYI_ONLY, case["steered"])
        if case.get("steered_alias_dir"):
            ctx.excluded(ALIAS_DIR, case["steered_alias_dir"])
        if case.get("steered_kf"):
            ctx.excluded(PKGUTIL_FROM, case["steered_kf"])
        return _describe(case)

    ctx.run_hypothesis(strategy(ctx), check_case, max_examples=ctx.scale(600, 25000), describe=describe)
