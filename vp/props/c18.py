"""C18 — Synthesised dataclass constructors equal the ones CPython generates.

Hypothesis generates dataclass hierarchies (vp/gen/c18_dc.py); the module is written to a scratch directory, imported by
CPython (the oracle: `dataclasses` itself, `inspect.signature(cls.__init__)`, `dataclasses.is_dataclass`) and loaded
statically with `griffe.load` (so that the built-in dataclasses extension runs on `on_package_loaded`).
Definitions CPython rejects at class creation are discarded and counted.
"""

from __future__ import annotations

import dataclasses
import importlib.util
import inspect
import itertools
import os
import shutil
import sys
import tempfile
from pathlib import Path

from vp.common.bootstrap import HarnessError
from vp.common.harness import Fail, call
from vp.gen import c18_dc as G

ID = "C18"
LEVEL = "exploration"
RULE = (
    "Hypothesis-generated modules of 1-4 classes (dataclass / plain mixed, <=2 bases each, depth <=3) whose bodies draw from: "
    "annotated fields with plain / field(default|default_factory|init|kw_only|repr) values, InitVar, ClassVar (subscripted and bare), "
    "KW_ONLY marker (named `_`, `_kw` or `marker`), un-annotated attributes, properties / cached properties with and without return annotation, methods, hand-written __init__ (`def`, or bound by assignment to a module-level function); decorator forms @dataclass / @dataclass() / "
    "@dataclass(init=, kw_only=, other flag); 4 import forms; PEP 563 on/off; names from a pool of 5 so that overrides are common. "
    "Two cases in ten split the hierarchy over two top-level packages loaded one after the other (base package first) into one "
    "GriffeLoader, with InitVar fields in the base package. Two cases in ten spread the classes over a package (__init__, m1, m2; imports package->submodule, submodule->package, "
    "submodule->sibling, relative or absolute, explicit or `from .src import *` with/without __all__ in the source; never cyclic). One case in ten is a diamond (C0 <- C1, C0 <- C2, C3(C2, C1); C2 undecorated one time in three); two in ten are a history: two variants of a same-named module loaded one after the other (separate loaders and collections) "
    "through ONE griffe.load_extensions() result, each judged against CPython. "
    "Only modules CPython accepts are evaluated. non-trivial = a dataclass at depth >=2 overriding an inherited field, or keyword-only "
    "interplay (flag / marker / field(kw_only)) in a dataclass with >=2 constructor fields; distinct = distinct module source"
)
ASSUMPTIONS = [
    "CPython 3.12 dataclasses / inspect.signature(cls.__init__) / dataclasses.is_dataclass are the reference",
    "compared: parameter names, order, kinds and required-ness (has default) of the constructor Griffe presents for the class "
    "(Class.parameters, i.e. own or inherited __init__); annotation and default texts are not part of the property",
    "a class whose resolved __init__ is object.__init__ (e.g. @dataclass(init=False) without any inherited constructor) may present "
    "either no __init__ or the empty synthesised `__init__(self)`",
    "an `__init__` bound by assignment (`__init__ = module_level_function`) must stay the attribute Griffe visited; classes that "
    "merely inherit such a constructor are not judged on their constructor (Griffe has no signature for an attribute)",
    "member names are unique inside one class body (re-binding inside a body is C01's subject); frozen=True is not generated",
    "two-package histories load the base package before the package that subclasses it (the order in which a dependency is "
    "available when the dependent package's on_package_loaded fires); the reverse order is not generated: on the unchanged tree a "
    "dataclass processed before its parent package is loaded has no access to the parent's fields (observed, noted in findings/C18.md)",
    "the generated module is a single file loaded with griffe.load(name, search_paths=[dir], allow_inspection=False)",
]
BUDGET_S = {"quick": 85.0, "thorough": 1500.0}

_TMP_BASE: Path | None = None
_counter = itertools.count()

PY_KIND = {
    inspect.Parameter.POSITIONAL_ONLY: "positional_only",
    inspect.Parameter.POSITIONAL_OR_KEYWORD: "positional_or_keyword",
    inspect.Parameter.VAR_POSITIONAL: "var_positional",
    inspect.Parameter.KEYWORD_ONLY: "keyword_only",
    inspect.Parameter.VAR_KEYWORD: "var_keyword",
}
VARIADIC = ("var_positional", "var_keyword")


class Rejected(Exception):
    """CPython refused the generated module (outside the property's domain)."""


# ----------------------------------------------------------------------------- CPython side
def cpython_import(path: Path, name: str):
    spec = importlib.util.spec_from_file_location(name, path)
    mod = importlib.util.module_from_spec(spec)
    sys.modules[name] = mod  # dataclasses resolves string annotations through sys.modules[cls.__module__]
    try:
        spec.loader.exec_module(mod)
    except (TypeError, ValueError, AttributeError) as exc:
        raise Rejected(f"{type(exc).__name__}: {exc}") from exc
    finally:
        sys.modules.pop(name, None)
    return mod


def py_params(func) -> list[tuple[str, str, bool]]:
    out = []
    for p in inspect.signature(func).parameters.values():
        out.append((p.name, PY_KIND[p.kind], p.default is inspect.Parameter.empty and PY_KIND[p.kind] not in VARIADIC))
    return out


def griffe_params(parameters) -> list[tuple[str, str, bool]]:
    out = []
    for p in parameters:
        kind = p.kind.name if p.kind is not None else "None"
        out.append((p.name, kind, p.required and kind not in VARIADIC))
    return out


def fmt(params) -> str:
    """inspect-like rendering of [(name, kind, required)]."""
    parts = []
    kinds = [k for _, k, _ in params]
    star = False
    for i, (n, k, req) in enumerate(params):
        d = "" if req or k in VARIADIC else "=…"
        if k == "var_positional":
            parts.append(f"*{n}")
            star = True
        elif k == "var_keyword":
            parts.append(f"**{n}")
        elif k == "keyword_only":
            if not star:
                parts.append("*")
                star = True
            parts.append(f"{n}{d}")
        else:
            parts.append(f"{n}{d}")
            if k == "positional_only" and (i + 1 == len(kinds) or kinds[i + 1] != "positional_only"):
                parts.append("/")
    return "(" + ", ".join(parts) + ")"


# ----------------------------------------------------------------------------- the property on one module
def evaluate(case: dict, workdir: Path) -> tuple[list[Fail], str | None]:
    """Returns (fails, rejection reason or None) for a "dc" case (one module, one load) or a "dc2" case (two variants of a
    same-named module, loaded one after the other through ONE `griffe.load_extensions()` result — what `griffe check` does for
    the old and the new version of a package — each judged against CPython as usual)."""
    import griffe

    name = f"c18m{os.getpid()}_{next(_counter)}"
    d = workdir / name
    d.mkdir(parents=True)
    try:
        if case.get("kind") == "dc":
            return evaluate_module(case, d, name, None, 0)
        if case.get("kind") == "dcpkg":
            return evaluate_package(case, d, name)
        if case.get("kind") == "dc2pkg":
            return evaluate_two_packages(case, d, name)
        extensions = call("total", griffe.load_extensions, what="griffe.load_extensions()")
        fails: list[Fail] = []
        for k, sub in enumerate((case["first"], case["second"]), 1):
            sub_fails, rejected = evaluate_module(sub, d / str(k), name, extensions, k)
            if rejected:
                return [], rejected
            fails += sub_fails
        return fails, None
    finally:
        shutil.rmtree(d, ignore_errors=True)


def evaluate_module(case: dict, d: Path, name: str, extensions, load_no: int) -> tuple[list[Fail], str | None]:
    """Write, import (CPython), load (Griffe) and judge one module in directory `d`. load_no: 0 = the only load of the case,
    1 / 2 = first / second load through a shared extensions object."""
    import griffe

    code = G.render(case)
    suffix = "@2nd-load-same-extensions" if load_no == 2 else ""
    d.mkdir(parents=True, exist_ok=True)
    try:
        path = d / f"{name}.py"
        path.write_text(code)
        try:
            pymod = cpython_import(path, name)
        except Rejected as r:
            return [], str(r)
        except Exception as exc:  # noqa: BLE001
            raise HarnessError(f"generated module fails in CPython with {exc!r}\n{code}") from exc
        kwargs = {} if extensions is None else {"extensions": extensions}
        gmod = call("total", griffe.load, name, search_paths=[str(d)], allow_inspection=False, what="griffe.load", **kwargs)
        fails = judge(case, lambda i: pymod, lambda i: gmod, code)
        if load_no:
            for f in fails:
                f.kind += suffix
                f.message = f"[load #{load_no} of 2 through one load_extensions() result] " + f.message
                f.detail = {**(f.detail or {}), "load": load_no}
        return fails, None
    finally:
        sys.path_importer_cache.pop(str(d), None)


def judge(case: dict, py_of, g_of, code: str) -> list[Fail]:
    """The clauses for every class of a "dc" model; py_of(i) / g_of(i) give the CPython module / Griffe module holding C<i>."""
    if True:
        fails: list[Fail] = []
        for i, cls in enumerate(case["classes"]):
            cname = f"C{i}"
            pycls = getattr(py_of(i), cname)
            gmod = g_of(i)
            gcls = gmod.members.get(cname) if gmod is not None else None
            if gcls is None or getattr(gcls.kind, "value", "") != "class":
                fails.append(Fail("total", "class-missing", f"{cname} is not a class member: {gcls!r}\n{code}"))
                continue
            is_dc = dataclasses.is_dataclass(pycls)
            own_handwritten = any(it["t"] == "init" for it in cls["body"])
            py_own = "__init__" in pycls.__dict__
            decorated = cls["deco"] is not None
            where = ("dataclass" if decorated else ("plain-subclass" if is_dc else "plain")) + ("+own-init" if own_handwritten else "")

            # label: a class is labelled dataclass iff dataclasses.is_dataclass says so
            has_label = "dataclass" in gcls.labels
            if has_label != is_dc:
                fails.append(
                    Fail("label", f"{'missing' if is_dc else 'spurious'}:{where}", f"{cname}: dataclasses.is_dataclass={is_dc}, labels={sorted(gcls.labels)}\n{code}")
                )

            g_own = gcls.members.get("__init__")
            # hand-written __init__ is never replaced (lineno 0 marks the synthesised one)
            if own_handwritten and any(it["t"] == "init" and it.get("assign") for it in cls["body"]):
                # `__init__ = some_function` in the class body: CPython finds it in cls.__dict__ and never overwrites it;
                # Griffe must keep the member it visited (an attribute), not put a synthesised function in its place
                if g_own is None or getattr(g_own.kind, "value", "") != "attribute":
                    fails.append(
                        Fail("handwritten-kept", f"assigned-init-replaced:{where}", f"{cname}: `__init__ = _init_C{i}` (CPython __init__{fmt(py_params(pycls.__dict__['__init__']))}) is shown as {g_own!r}" + (f" __init__{fmt(griffe_params(g_own.parameters))}" if getattr(getattr(g_own, "kind", None), "value", "") == "function" else "") + f"\n{code}")
                    )
                continue
            if own_handwritten:
                if g_own is None or getattr(g_own.kind, "value", "") != "function":
                    fails.append(Fail("handwritten-kept", f"missing:{where}", f"{cname}: hand-written __init__ is not a function member: {g_own!r}\n{code}"))
                    continue
                want = py_params(pycls.__dict__["__init__"])
                got = griffe_params(g_own.parameters)
                if want != got:
                    fails.append(Fail("handwritten-kept", f"replaced:{where}", f"{cname}: hand-written __init__{fmt(want)}, Griffe shows __init__{fmt(got)}\n{code}"))
                continue

            # non-dataclass classes get no synthesised __init__
            if not is_dc:
                if g_own is not None:
                    fails.append(Fail("plain-gets-none", where, f"{cname} is not a dataclass and has no __init__, Griffe shows {g_own!r}\n{code}"))
                continue

            # dataclass (decorated or inheriting) without hand-written __init__: the constructor Griffe presents for the class
            inherited_init = call("total", lambda c=gcls: c.all_members.get("__init__"), what=f"{cname}.all_members")
            if inherited_init is not None and getattr(inherited_init.kind, "value", "") == "attribute":
                # the constructor is inherited from a class that binds __init__ by assignment: Griffe has no signature for it
                continue
            presented = call("total", lambda c=gcls: c.parameters, what=f"{cname}.parameters")
            got = griffe_params(presented)
            if pycls.__init__ is object.__init__:
                # CPython generated nothing and nothing is inherited: no __init__, or the empty synthesised one
                if got not in ([], [("self", "positional_or_keyword", True)]):
                    fails.append(Fail("init-equal", f"none-expected:{where}", f"{cname}: CPython has no __init__ (object's), Griffe presents __init__{fmt(got)}\n{code}"))
                continue
            want = py_params(pycls.__init__)
            if want != got:
                fails.append(
                    Fail(
                        "init-equal",
                        classify(want, got, py_own) + ":" + where,
                        f"{cname}: CPython __init__{fmt(want)}, Griffe __init__{fmt(got)}\n{code}",
                        {"cls": i, "want": [list(p) for p in want], "got": [list(p) for p in got]},
                    )
                )
        return fails


def evaluate_package(case: dict, d: Path, pkg: str) -> tuple[list[Fail], str | None]:
    """The classes of case["dc"] spread over the modules of a package: CPython imports every module, Griffe loads the package."""
    import importlib

    import griffe

    sources = G.render_package(case, pkg)
    code = "\n".join(f"# ---- {pkg}/{m}.py\n{src}" for m, src in sources.items())
    (d / pkg).mkdir(parents=True)
    for m, src in sources.items():
        (d / pkg / f"{m}.py").write_text(src)
    sys.path.insert(0, str(d))
    try:
        importlib.invalidate_caches()
        pymods = {}
        try:
            for m in sources:
                pymods[m] = importlib.import_module(pkg if m == "__init__" else f"{pkg}.{m}")
        except (TypeError, ValueError, AttributeError) as exc:
            return [], f"{type(exc).__name__}: {exc}"
        except Exception as exc:  # noqa: BLE001
            raise HarnessError(f"generated package fails in CPython with {exc!r}\n{code}") from exc
        gpkg = call("total", griffe.load, pkg, search_paths=[str(d)], allow_inspection=False, what="griffe.load")

        def g_of(i: int):
            m = G.package_module_of(case, i)
            return gpkg if m == "__init__" else gpkg.members.get(m)

        fails = judge(case["dc"], lambda i: pymods[G.package_module_of(case, i)], g_of, code)
        for f in fails:
            f.kind += "@package"
        return fails, None
    finally:
        sys.path.remove(str(d))
        for name in [n for n in sys.modules if n == pkg or n.startswith(pkg + ".")]:
            del sys.modules[name]
        for key in [k for k in sys.path_importer_cache if k.startswith(str(d))]:
            del sys.path_importer_cache[key]


def evaluate_two_packages(case: dict, d: Path, name: str) -> tuple[list[Fail], str | None]:
    """The hierarchy split over two top-level modules, loaded one after the other (base package first) into ONE GriffeLoader;
    CPython imports both; every class of both packages is judged after the second load."""
    import importlib

    import griffe

    name_a, name_b = name + "a", name + "b"
    sources = G.render_two_packages(case, name_a, name_b)
    code = "\n".join(f"# ---- {m}.py\n{src}" for m, src in sources.items())
    d.mkdir(parents=True, exist_ok=True)
    for m, src in sources.items():
        (d / f"{m}.py").write_text(src)
    sys.path.insert(0, str(d))
    try:
        importlib.invalidate_caches()
        try:
            pymods = [importlib.import_module(name_a), importlib.import_module(name_b)]
        except (TypeError, ValueError, AttributeError) as exc:
            return [], f"{type(exc).__name__}: {exc}"
        except Exception as exc:  # noqa: BLE001
            raise HarnessError(f"generated packages fail in CPython with {exc!r}\n{code}") from exc
        loader = call("total", griffe.GriffeLoader, search_paths=[str(d)], allow_inspection=False, what="GriffeLoader()")
        gmods = [call("total", loader.load, n, what=f"loader.load({n})") for n in (name_a, name_b)]
        fails = judge(case["dc"], lambda i: pymods[case["side"][i]], lambda i: gmods[case["side"][i]], code)
        for f in fails:
            f.kind += "@two-packages-one-loader"
        return fails, None
    finally:
        sys.path.remove(str(d))
        for n in (name_a, name_b):
            sys.modules.pop(n, None)
        for key in [k for k in sys.path_importer_cache if k.startswith(str(d))]:
            del sys.path_importer_cache[key]


def classify(want, got, py_own: bool) -> str:
    """Coarse, root-cause oriented mismatch kind."""
    wn, gn = [p[0] for p in want], [p[0] for p in got]
    if set(gn) - set(wn):
        return "extra-parameter"
    if set(wn) - set(gn):
        return "missing-parameter"
    if wn != gn:
        return "order"
    if [p[1] for p in want] != [p[1] for p in got]:
        return "kind"
    return "required"


def check_case(case) -> list[Fail]:
    fails, _ = check_case_ex(case)
    return fails


def check_case_ex(case) -> tuple[list[Fail], str | None]:
    if case.get("kind") not in ("dc", "dc2", "dcpkg", "dc2pkg"):
        raise HarnessError(f"unknown case kind {case.get('kind')!r}")
    if _TMP_BASE is not None:
        return evaluate(case, _TMP_BASE)
    base = Path(tempfile.mkdtemp(prefix="verif-C18-", dir="/dev/shm" if os.access("/dev/shm", os.W_OK) else None))
    try:
        return evaluate(case, base)
    finally:
        shutil.rmtree(base, ignore_errors=True)


SLUG_INHERITED = "inherited-class-attribute-default"


def _is_inherited_class_attribute_default(case, fail: Fail) -> bool:
    """Known finding: the only difference is required-ness, CPython sees a default where Griffe sees none, and every such
    parameter is a field declared without value in a decorated class while an ancestor leaves the same name bound to a value
    (dataclasses reads the default with getattr(cls, name), i.e. through inheritance)."""
    if fail.clause != "init-equal" or not fail.kind.startswith("required:") or not isinstance(fail.detail, dict) or "want" not in fail.detail:
        return False
    want, got = fail.detail["want"], fail.detail["got"]
    if [p[:2] for p in want] != [p[:2] for p in got]:
        return False
    diff = [w[0] for w, g in zip(want, got) if w[2] != g[2]]
    if not diff or any(w[2] or not g[2] for w, g in zip(want, got) if w[2] != g[2]):
        return False
    if case.get("kind") == "dc2":
        case = case["first"] if fail.detail.get("load") == 1 else case["second"]
    elif case.get("kind") in ("dcpkg", "dc2pkg"):
        case = case["dc"]
    classes = case["classes"]
    # the class whose constructor is presented, or the ancestor it is inherited from: any decorated class of the module
    culprits = {classes[i]["body"][k]["n"] for i, k in G.inherited_value_fields(case)}
    return all(n in culprits for n in diff)


KNOWN = {SLUG_INHERITED: _is_inherited_class_attribute_default}


def _cases(ctx):
    from hypothesis import strategies as st

    one = G.cases(avoid_inherited_value=SLUG_INHERITED in ctx.known)
    small = G.cases(max_classes=3, avoid_inherited_value=SLUG_INHERITED in ctx.known)
    two = st.builds(lambda a, b: {"kind": "dc2", "first": a, "second": b}, small, small)
    diamond = G.diamond_cases(avoid_inherited_value=SLUG_INHERITED in ctx.known)
    package = G.package_cases(avoid_inherited_value=SLUG_INHERITED in ctx.known)
    two_packages = G.two_package_cases(avoid_inherited_value=SLUG_INHERITED in ctx.known)
    return st.one_of(one, one, one, two, two, diamond, package, package, two_packages, two_packages)


def strategy(ctx):
    return _cases(ctx), "dc"


def run_shard(ctx) -> None:
    global _TMP_BASE
    _TMP_BASE = ctx.tmp
    last: dict = {}

    def check(case):
        last["rejected"] = None
        fails, rejected = check_case_ex(case)
        last["rejected"] = rejected
        return fails

    def describe(case):
        rej = last.get("rejected")
        if rej:
            return None, ["cpython-rejected", "cpython-rejected:" + rej.split(":")[0]], None
        if case["kind"] == "dc2":
            steered = case["first"].get("steered", 0) + case["second"].get("steered", 0)
            if steered:
                ctx.excluded(SLUG_INHERITED, steered)
            nt1, l1 = G.stats(case["first"])
            nt2, l2 = G.stats(case["second"])
            codes = [G.render(case["first"]), G.render(case["second"])]
            labels = sorted(set(l1) | set(l2)) + ["history:two-loads-one-extensions-object"]
            return (codes if (nt1 or nt2) else None), ["accepted", *labels], {"first load": codes[0], "second load": codes[1]}
        if case["kind"] == "dc2pkg":
            if case["dc"].get("steered"):
                ctx.excluded(SLUG_INHERITED, case["dc"]["steered"])
            nt, labels = G.stats(case["dc"])
            labels = [*labels, "two-packages:one-loader"]
            dc = case["dc"]
            for i, cls in enumerate(dc["classes"]):
                if case["side"][i] == 1 and cls["deco"] is not None:
                    for b in cls["bases"]:
                        if case["side"][b] == 0 and dc["classes"][b]["deco"] is not None:
                            labels.append("two-packages:dataclass-subclass-across-packages")
                            nt = True
                            if any(it["t"] == "iv" for it in dc["classes"][b]["body"]):
                                labels.append("two-packages:base-with-InitVar-in-first-package")
            sources = G.render_two_packages(case, "pkga", "pkgb")
            return (sources if nt else None), ["accepted", *sorted(set(labels))], {"packages": sources}
        if case["kind"] == "dcpkg":
            if case["dc"].get("steered"):
                ctx.excluded(SLUG_INHERITED, case["dc"]["steered"])
            nt, labels = G.stats(case["dc"])
            mods = [G.package_module_of(case, i) for i in range(len(case["dc"]["classes"]))]
            labels = [*labels, f"package:modules-used={len(set(mods))}"]
            for i, cls in enumerate(case["dc"]["classes"]):
                for b in cls["bases"]:
                    if mods[b] != mods[i] and mods[b] != "__init__" and (case.get("wild", 0) >> G.PKG_MODULES.index(mods[i])) & 1:
                        has_all = bool((case.get("all", 0) >> G.PKG_MODULES.index(mods[b])) & 1)
                        labels.append("package:base-through-wildcard-import" + ("-with-__all__" if has_all else "-without-__all__"))
                    if mods[b] != mods[i]:
                        labels.append("package:base-in-" + ("package-init" if mods[b] == "__init__" else "submodule") + "-of-" + ("package-init" if mods[i] == "__init__" else "submodule"))
                        nt = True
            sources = G.render_package(case, "pkg")
            return (sources if nt else None), ["accepted", *sorted(set(labels))], {"package": sources}
        if case.get("steered"):
            ctx.excluded(SLUG_INHERITED, case["steered"])
        nt, labels = G.stats(case)
        code = G.render(case)
        return (code if nt else None), ["accepted", *labels], {"module": code}

    try:
        # in chunks: a run that is out of budget stops drawing instead of generating (and skipping) the remaining examples;
        # the first chunk uses the salt of strategy() so that the shrinker replays it exactly
        total, done, k = ctx.scale(2000, 40000), 0, 0
        strat = _cases(ctx)
        while done < total and not ctx.out_of_budget():
            n = min(500, total - done)
            ctx.run_hypothesis(strat, check, n, describe=describe, salt="dc" + (str(k) if k else ""))
            done += n
            k += 1
    finally:
        _TMP_BASE = None
