"""C05 — Imports, re-exports and wildcards resolve exactly as CPython imports them.

Domain: generated packages (vp/gen/c05_pkg.py, profile `importable`): 2-6 modules in a tree of depth <= 3, an acyclic
import order, absolute / relative / aliased / wildcard imports, `import a.b [as c]`, `__all__` present / absent / empty /
with private names / assembled from other modules' `__all__` (star, `+`, `+=`, `mod.__all__`), definitions and imports
of the same few names interleaved so that re-binding is the norm.

Oracle: CPython itself. The package is imported in-process; every object carries its definition site (classes and
functions: `__module__`+`__qualname__` and a docstring "<path>#<serial>"; plain values: the tuple ("<path>", serial);
`__all__` lists: identity with the defining module's `__all__`).

Clauses
  names     for every module, the member names Griffe shows (after load + alias resolution) are the names CPython
            binds in the module (all of vars(module) except the import system's own dunders)
  target    for every such name, Griffe's final target has the path and kind of CPython's object, and it is the same
            definition (serial in the docstring / value) when a name was defined several times
  exports   Module.exports names the same set as the runtime `__all__` (None iff the module has no `__all__`)
  alias     a resolved alias presents its target's kind, docstring, labels, parameters and members; member paths are
            rebased under the alias's own path; (grounded in CPython: parameter names/kinds = inspect.signature,
            class member names = vars(cls))
  class     names bound in a class body, import statements included, are the class's members; members that are aliases
            resolve to what CPython bound there
  total     loading and resolving never raises

Tolerance (DESIGN 4/C05, `is_wildcard_exposed` docstring): after `from pkg import *` (pkg without `__all__`) the
presence of pkg's *sub-module names* in the importing module depends on CPython's import history; such names are not
compared unless the model binds them explicitly.
"""

from __future__ import annotations

import ast
import inspect
import os
import shutil
import tempfile
import types
from pathlib import Path

from vp.common.bootstrap import HarnessError
from vp.common.harness import Fail, call
from vp.gen import c05_pkg as G

ID = "C05"
LEVEL = "exploration"
RULE = (
    "Hypothesis-generated package models (2-6 modules, tree depth <=3, acyclic import order, 0-6 statements per module "
    "over an 8-name pool + __all__ statements), rendered to files, imported by CPython in-process and loaded by "
    "griffe.load(resolve_aliases=True, resolve_implicit=True). non-trivial = at least one wildcard import and (a "
    "re-export chain of length >=2 or an __all__); distinct = distinct package model (digest of the whole model)"
)
ASSUMPTIONS = [
    "CPython 3.12 importing the rendered package is the reference for visible names and for what each name refers to",
    "generated packages are acyclic (rule R in vp/gen/c05_pkg.py) and side-effect free; object names, module names and "
    "__all__ helper names come from disjoint pools, so nothing a package defines or imports (also through a wildcard) "
    "carries the name of one of its own sub-modules, except the sub-module itself imported directly (documented "
    "unsupported shadowing, docs/guide/users/recommendations/python-code.md)",
    "names of sub-modules of a wildcard source package (without __all__) that the package does not import explicitly are "
    "not compared (import-history dependent at runtime; documented special case of is_wildcard_exposed)",
    "statements may share a line (`a = 1; from .m import x`); explicit imports also occur in class bodies; no "
    "TYPE_CHECKING guards, no conditional definitions, no external packages",
    "order and duplicates of __all__ are not compared (irrelevant to `import *`); a name used to splice another module's "
    "__all__ (`x_all`, `mod`, a module alias imported from another module) is bound exactly once in the module and "
    "reaches the module through explicit imports only, as in the documented forms",
    "the simulated namespace in vp/gen/c05_pkg.py only decides which names the generator may mention, which names fall "
    "under the sub-module tolerance and how failures are bucketed; every verdict compares Griffe with CPython",
]
BUDGET_S = {"quick": 70.0, "thorough": 1500.0}
SHRINK_MAX_EXAMPLES = 4000

# ------------------------------------------------------------------------------------------------ scratch space
_SCRATCH: list = [None, None]


def case_root(top: str):
    """(directory for one case, directory to delete afterwards). Inside a search shard the per-process scratch dir of
    the harness is used; elsewhere (replay, witness tier, shrink worker) a private temporary directory per case, so that
    nothing is left behind even when the process is killed between cases or exits without running atexit handlers."""
    if _SCRATCH[0] is not None and _SCRATCH[1] == os.getpid() and Path(_SCRATCH[0]).is_dir():
        return G.fresh_dir(Path(_SCRATCH[0]), top + "_d"), None
    base = "/dev/shm" if os.access("/dev/shm", os.W_OK) else None
    own = tempfile.mkdtemp(prefix=f"verif-{ID}-", dir=os.environ.get("VERIF_TMP") or base)
    return G.fresh_dir(Path(own), top + "_d"), own


def use_scratch(path: Path) -> None:
    _SCRATCH[:] = [str(path), os.getpid()]


# ------------------------------------------------------------------------------------------------ CPython side
def classify(value, allmap) -> dict:
    """Where does this runtime object come from? -> {"paths": set, "kind": str, "serial": ..}"""
    if isinstance(value, types.ModuleType):
        return {"paths": {value.__name__}, "kind": "module"}
    if isinstance(value, type):
        return {"paths": {f"{value.__module__}.{value.__qualname__}"}, "kind": "class", "doc": value.__doc__}
    if isinstance(value, types.FunctionType):
        return {"paths": {f"{value.__module__}.{value.__qualname__}"}, "kind": "function", "doc": value.__doc__}
    if isinstance(value, tuple) and len(value) == 2 and isinstance(value[0], str) and isinstance(value[1], int):
        return {"paths": {value[0]}, "kind": "attribute", "tag": value}
    if id(value) in allmap:
        return {"paths": set(allmap[id(value)]), "kind": "attribute"}
    raise HarnessError(f"untagged runtime object {value!r}")


CLASS_DUNDERS = frozenset(
    ("__module__", "__qualname__", "__doc__", "__dict__", "__weakref__", "__annotations__", "__firstlineno__", "__static_attributes__")
)


def cpython_view(case, top, mods) -> dict:
    allmap: dict = {}
    for mod in case["mods"]:
        if any(s["t"] == "all" and s["op"] == "=" for s in mod["body"]):
            obj = vars(mods[mod["path"]]).get("__all__")
            allmap.setdefault(id(obj), []).append(G.dotted(top, mod["path"]) + ".__all__")
    view = {}
    for mod in case["mods"]:
        ns = vars(mods[mod["path"]])
        names = {n: classify(v, allmap) for n, v in ns.items() if n not in G.MODULE_DUNDERS}
        exports = None
        if "__all__" in ns:
            exports = set(ns["__all__"])
        view[mod["path"]] = {"names": names, "exports": exports, "raw": ns}
    view["$allmap"] = allmap
    return view


# ------------------------------------------------------------------------------------------------ the property
def _how(case, sim, path, name, top) -> str:
    """Coarse structural feature of how the model binds `name` in module `path` (for bucketing only)."""
    info = sim[path]["ns"].get("$TOP" if name == top else name)
    if not info:
        return "unbound"
    how = info["how"]
    via = info.get("via")
    if how == "wild" and via is not None:
        if via in G.ancestors(path):
            how += ":from-ancestor"
        src = next(m for m in case["mods"] if m["path"] == via)
        if any(s["t"] == "all" and any(not isinstance(i, str) for i in s["items"]) for s in src["body"]):
            how += ":spliced-__all__"
    return how


def check_case(case) -> list[Fail]:
    import griffe
    from griffe import AliasResolutionError, CyclicAliasError

    top = G.unique_pkg_name()
    root, own = case_root(top)
    try:
        G.write_files(root, G.render(case, top))
        try:
            mods = G.cpython_import(root, top, case)
        except G.CPythonImportError as exc:
            raise HarnessError(f"generated package is not importable: {exc}") from exc
        cview = cpython_view(case, top, mods)
        sim = G.simulate(case)
        pkg = call(
            "total",
            griffe.load,
            top,
            search_paths=[str(root)],
            allow_inspection=False,
            resolve_aliases=True,
            resolve_implicit=True,
            what="griffe.load(resolve_aliases=True, resolve_implicit=True)",
        )
        coll = pkg.modules_collection
        fails: list[Fail] = []
        norm = lambda s: str(s).replace(top, "P")  # noqa: E731
        src_text = lambda: G.show(case, "P")  # noqa: E731

        def module_names(cmodule):
            """(names CPython binds in this module of the package, names not compared) or None for foreign modules."""
            name = cmodule.__name__
            mpath = "" if name == top else name[len(top) + 1 :]
            if mpath not in cview or not (name == top or name.startswith(top + ".")):
                return None
            return set(cview[mpath]["names"]), G.tolerated_names(case, sim, mpath)

        for mod in case["mods"]:
            path = mod["path"]
            full = G.dotted(top, path)
            try:
                gmod = coll.get_member(full)
            except KeyError:
                fails.append(Fail("names", "module-missing", f"module {norm(full)} is not in the loaded tree\n{src_text()}"))
                continue
            if gmod.is_alias or not gmod.is_module:
                fails.append(Fail("names", "module-replaced", f"{norm(full)} is {gmod!r}, not a module\n{src_text()}"))
                continue
            cmod = cview[path]
            s = sim[path]
            tolerated = G.tolerated_names(case, sim, path)
            gnames = {n for n in gmod.members if "/" not in n}
            cnames = set(cmod["names"])
            for n in sorted((cnames - gnames) - tolerated):
                how = _how(case, sim, path, n, top)
                fails.append(
                    Fail(
                        "names",
                        f"missing[{how}]",
                        f"module {norm(full)}: CPython binds {norm(n)!r} (-> {norm(sorted(cmod['names'][n]['paths']))}), "
                        f"Griffe has no such member; members={norm(sorted(gmod.members))}\n{src_text()}",
                        {"module": path, "name": "$TOP" if n == top else n},
                    )
                )
            for n in sorted((gnames - cnames) - tolerated):
                how = _how(case, sim, path, n, top)
                fails.append(
                    Fail(
                        "names",
                        f"extra[{how}]",
                        f"module {norm(full)}: Griffe shows member {norm(n)!r} ({gmod.members[n]!r}) that CPython does not bind; "
                        f"runtime names={norm(sorted(cnames))}\n{src_text()}",
                        {"module": path, "name": "$TOP" if n == top else n},
                    )
                )
            # ---- targets
            for n in sorted(gnames & cnames):
                cobj = cmod["names"][n]
                gm = gmod.members[n]
                how = _how(case, sim, path, n, top)
                if gm.is_alias:
                    try:
                        ft = gm.final_target
                    except (AliasResolutionError, CyclicAliasError) as exc:
                        fails.append(
                            Fail(
                                "target",
                                f"unresolved:{type(exc).__name__}[{how}]",
                                f"{norm(full)}.{norm(n)}: alias to {norm(gm.target_path)!r} does not resolve ({type(exc).__name__}); "
                                f"CPython: {norm(sorted(cobj['paths']))}\n{src_text()}",
                                {"module": path, "name": "$TOP" if n == top else n},
                            )
                        )
                        continue
                else:
                    ft = gm
                gkind = ft.kind.value
                if ft.path not in cobj["paths"] or gkind != cobj["kind"]:
                    fails.append(
                        Fail(
                            "target",
                            f"wrong-object[{how}]",
                            f"{norm(full)}.{norm(n)}: Griffe resolves to {gkind} {norm(ft.path)}, CPython's object is "
                            f"{cobj['kind']} {norm(sorted(cobj['paths']))}\n{src_text()}",
                            {"module": path, "name": "$TOP" if n == top else n},
                        )
                    )
                    continue
                # same definition? (serial)
                if cobj["kind"] in ("class", "function"):
                    gdoc = ft.docstring.value if ft.docstring else None
                    if gdoc != cobj["doc"]:
                        fails.append(
                            Fail(
                                "target",
                                f"wrong-definition[{how}]",
                                f"{norm(full)}.{norm(n)}: Griffe's target has docstring {norm(gdoc)!r}, CPython's object {norm(cobj['doc'])!r}\n{src_text()}",
                                {"module": path, "name": "$TOP" if n == top else n},
                            )
                        )
                elif "tag" in cobj:
                    try:
                        gval = ast.literal_eval(str(ft.value))
                    except (ValueError, SyntaxError):
                        gval = str(ft.value)
                    if gval != cobj["tag"]:
                        fails.append(
                            Fail(
                                "target",
                                f"wrong-definition[{how}]",
                                f"{norm(full)}.{norm(n)}: Griffe's target has value {norm(gval)!r}, CPython's object is {norm(cobj['tag'])!r}\n{src_text()}",
                                {"module": path, "name": "$TOP" if n == top else n},
                            )
                        )
                if gm.is_alias:
                    fails += _alias_presents(gm, ft, cmod["raw"][n], norm, src_text, module_names)
                elif gm.is_class and isinstance(cmod["raw"][n], type) and cobj["paths"] == {f"{full}.{n}"}:
                    fails += _class_imports(gm, cmod["raw"][n], allmap_of(cview), norm, src_text, top)
            # ---- exports
            gexp = gmod.exports
            cexp = cmod["exports"]
            if cexp is None:
                if gexp is not None:
                    fails.append(Fail("exports", "spurious", f"{norm(full)}: no runtime __all__, Module.exports = {norm(gexp)}\n{src_text()}"))
            elif gexp is None:
                fails.append(Fail("exports", "none", f"{norm(full)}: runtime __all__ = {sorted(cexp)}, Module.exports is None\n{src_text()}"))
            else:
                unexpanded = [e for e in gexp if not isinstance(e, str)]
                if unexpanded:
                    fails.append(
                        Fail("exports", "unexpanded", f"{norm(full)}: Module.exports still holds names {norm(unexpanded)}; runtime __all__ = {sorted(cexp)}\n{src_text()}", {"module": path})
                    )
                elif set(gexp) != cexp:
                    fails.append(
                        Fail(
                            "exports",
                            "different",
                            f"{norm(full)}: Module.exports = {sorted(set(gexp))}, runtime __all__ = {sorted(cexp)}\n{src_text()}",
                            {"module": path},
                        )
                    )
        return fails
    finally:
        shutil.rmtree(own or root, ignore_errors=True)


def allmap_of(cview):
    return cview["$allmap"]


def _class_imports(gcls, ccls, allmap, norm, src_text, top) -> list[Fail]:
    """Clause `class`: names bound in a class body (import statements included) are the class's members, and members
    that are aliases resolve to what CPython bound there."""
    from griffe import AliasResolutionError, CyclicAliasError

    fails = []
    cns = {n: v for n, v in vars(ccls).items() if n not in CLASS_DUNDERS}
    gnames = set(gcls.members)
    where = norm(gcls.path)
    for n in sorted(set(cns) - gnames):
        fails.append(Fail("class", "missing", f"class {where}: CPython binds {norm(n)!r} in the class body, Griffe has no such member; members={norm(sorted(gnames))}\n{src_text()}"))
    for n in sorted(gnames - set(cns)):
        fails.append(Fail("class", "extra", f"class {where}: Griffe shows member {norm(n)!r} that the class body does not bind; vars={norm(sorted(cns))}\n{src_text()}"))
    for n in sorted(gnames & set(cns)):
        gm = gcls.members[n]
        if not gm.is_alias:
            continue
        cobj = classify(cns[n], allmap)
        try:
            ft = gm.final_target
        except (AliasResolutionError, CyclicAliasError) as exc:
            fails.append(Fail("class", f"unresolved:{type(exc).__name__}", f"{where}.{norm(n)}: alias to {norm(gm.target_path)!r} does not resolve; CPython: {norm(sorted(cobj['paths']))}\n{src_text()}"))
            continue
        if ft.path not in cobj["paths"] or ft.kind.value != cobj["kind"]:
            fails.append(Fail("class", "wrong-object", f"{where}.{norm(n)}: Griffe resolves to {ft.kind.value} {norm(ft.path)}, CPython's object is {cobj['kind']} {norm(sorted(cobj['paths']))}\n{src_text()}"))
    return fails


_GRIFFE_KIND = {
    inspect.Parameter.POSITIONAL_ONLY: "positional-only",
    inspect.Parameter.POSITIONAL_OR_KEYWORD: "positional or keyword",
    inspect.Parameter.VAR_POSITIONAL: "variadic positional",
    inspect.Parameter.KEYWORD_ONLY: "keyword-only",
    inspect.Parameter.VAR_KEYWORD: "variadic keyword",
}


def _alias_presents(alias, ft, cvalue, norm, src_text, module_names=None) -> list[Fail]:
    """Clause `alias`: the alias shows what its final target shows (and what CPython shows for the same object)."""
    fails = []
    where = norm(alias.path)

    def bad(kind, msg):
        fails.append(Fail("alias", kind, f"alias {where} -> {norm(ft.path)}: {msg}\n{src_text()}"))

    if alias.kind is not ft.kind:
        bad("kind", f"alias.kind={alias.kind}, target.kind={ft.kind}")
    if alias.docstring is not ft.docstring:
        bad("docstring", f"alias.docstring={alias.docstring!r}, target's={ft.docstring!r}")
    if alias.labels != ft.labels:
        bad("labels", f"alias.labels={alias.labels}, target's={ft.labels}")
    if ft.is_function or (ft.is_class and "__init__" in ft.members):
        ap = [(p.name, p.kind.value if p.kind else None, None if p.default is None else str(p.default)) for p in alias.parameters]
        tp = [(p.name, p.kind.value if p.kind else None, None if p.default is None else str(p.default)) for p in ft.parameters]
        if ap != tp:
            bad("parameters", f"alias.parameters={ap}, target's={tp}")
        # Class.parameters are documented as the parameters of `__init__` (self included)
        cfunc = vars(cvalue)["__init__"] if isinstance(cvalue, type) else cvalue
        try:
            sig = inspect.signature(cfunc)
        except (TypeError, ValueError):
            sig = None
        if sig is not None:
            # default presence is compared for non-variadic parameters only (Griffe gives *args/**kw a default text)
            cp = [(p.name, _GRIFFE_KIND[p.kind], p.default is not p.empty) for p in sig.parameters.values()]
            gp = [(n, k, d is not None and not k.startswith("variadic")) for n, k, d in ap]
            if cp != gp:
                bad("parameters-vs-cpython", f"alias.parameters={gp}, inspect.signature={cp}")
    if ft.is_class or ft.is_module:
        am = alias.members
        if set(am) != set(ft.members):
            bad("members", f"alias.members={sorted(am)}, target's={sorted(ft.members)}")
        for k, sub in am.items():
            if sub.path != f"{alias.path}.{k}":
                bad("member-path", f"member {k!r} has path {norm(sub.path)}, expected {where}.{k}")
            elif ft.is_class and sub.is_class:
                for k2, sub2 in sub.members.items():
                    if sub2.path != f"{alias.path}.{k}.{k2}":
                        bad("member-path", f"nested member {k}.{k2} has path {norm(sub2.path)}, expected {where}.{k}.{k2}")
        if ft.is_module and isinstance(cvalue, types.ModuleType) and module_names is not None:
            # a module alias (`from . import impl as core`) presents what CPython's module object holds after the import
            got = module_names(cvalue)
            if got is not None:
                cnames, tolerated = got
                gnames = {k for k in am if "/" not in k}
                diff = ((cnames - gnames) | (gnames - cnames)) - tolerated
                if diff or any("/" in k for k in am):
                    bad(
                        "module-members-vs-cpython",
                        f"alias.members={sorted(am)}, vars(module)={sorted(cnames)} (not compared: {sorted(tolerated)})",
                    )
        if ft.is_class and isinstance(cvalue, type):
            cnames = {n for n in vars(cvalue) if n not in CLASS_DUNDERS}
            if set(am) != cnames:
                bad("members-vs-cpython", f"alias.members={sorted(am)}, vars(class)={sorted(cnames)}")
    return fails


# ------------------------------------------------------------------------------------------------ known findings
def _known_stale_alias(case, fail: Fail) -> bool:
    """stale-alias-after-wildcard-override: the failing name's import chain passes through a module-level name that is
    bound by an explicit import and re-bound by a later wildcard import of the same module, or defined locally and
    re-bound by two later wildcard imports (`tainted`). Only the
    `target` clause (wrong object / wrong definition) can be attributed; the re-binding module itself must be right."""
    if fail.clause != "target" or not fail.kind.startswith(("wrong-object", "wrong-definition")):
        return False
    d = fail.detail or {}
    sim = G.simulate(case)
    info = sim.get(d.get("module"), {"ns": {}})["ns"].get(d.get("name"))
    if not info:
        return False
    return any(n in sim[m]["tainted"] for m, n in info["chain"])


def _known_dot_import(case, fail: Fail) -> bool:
    """dot-import-submodule-not-exposed: a name is missing in a module that receives it through a wildcard chain
    starting at a package whose __init__ binds it with `from . import <submodule>`."""
    if fail.clause != "names" or not fail.kind.startswith("missing"):
        return False
    d = fail.detail or {}
    sim = G.simulate(case)
    info = sim.get(d.get("module"), {"ns": {}})["ns"].get(d.get("name"))
    if not info or info["how"] != "wild":
        return False
    return any(n in sim[m]["dot_imported"] for m, n in info["chain"])


def _known_same_module(case, fail: Fail) -> bool:
    """wildcard-rebinding-same-module-skipped: the failing name (or a link of its import chain) is a name that a wildcard
    import re-binds to the module it was already bound to in that module."""
    if fail.clause != "target" or not fail.kind.startswith("wrong-object"):
        return False
    d = fail.detail or {}
    sim = G.simulate(case)
    mod = sim.get(d.get("module"))
    if not mod:
        return False
    if d.get("name") in mod["same_module_rebound"]:
        return True
    info = mod["ns"].get(d.get("name"))
    return bool(info) and any(n in sim[m]["same_module_rebound"] for m, n in info["chain"])


def _known_same_line(case, fail: Fail) -> bool:
    """same-line-wildcard-override: the failing name (or a link of its import chain) is re-bound by a wildcard import
    that shares its line with an earlier statement binding the same name (`a = 1; from .m import *`)."""
    if fail.clause != "target" or not fail.kind.startswith(("wrong-object", "wrong-definition")):
        return False
    d = fail.detail or {}
    sim = G.simulate(case)
    mod = sim.get(d.get("module"))
    if not mod:
        return False
    if d.get("name") in mod["same_line_rebound"]:
        return True
    info = mod["ns"].get(d.get("name"))
    return bool(info) and any(n in sim[m]["same_line_rebound"] for m, n in info["chain"])


KNOWN = {
    "same-line-wildcard-override": _known_same_line,
    "stale-alias-after-wildcard-override": _known_stale_alias,
    "wildcard-rebinding-same-module-skipped": _known_same_module,
    "dot-import-submodule-not-exposed": _known_dot_import,
}


# ------------------------------------------------------------------------------------------------ search
def _options(ctx) -> dict:
    return {
        "max_mods": 6,
        "max_stmts": ctx.scale(6, 8),
        "allow_join": True,
        "class_imports": True,
        "avoid": frozenset(k for k in G.KNOWN_STEERING if k in ctx.known),
        "on_excluded": ctx.excluded,
    }


def strategy(ctx):
    return G.packages(**_options(ctx)), "c05"


def describe(case):
    nontrivial, labels = G.describe_labels(case)
    sample = {"files": G.render(case, "P")} if nontrivial else None
    return (case if nontrivial else None), labels, sample


def run_shard(ctx) -> None:
    use_scratch(ctx.tmp)
    strat, salt = strategy(ctx)
    ctx.run_hypothesis(strat, check_case, ctx.scale(2000, 30000), describe=describe, salt=salt)
