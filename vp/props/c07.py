"""C07 — Method resolution order and inherited members equal CPython's.

Domain
  * kind "one": every hierarchy of exactly N classes (N=5 quick, N=6 thorough; every smaller hierarchy is a prefix),
    class i having an ordered tuple of <=3 distinct bases among classes < i - *including* the base orders CPython
    rejects (anywhere, so also classes deriving from a rejected class) - in one module, `griffe.visit`.
  * kind "cyc": every graph of exactly 3 classes whose bases range over all 3 classes (self loops, 2- and 3-cycles,
    forward references, classes that merely derive from a cycle).
  * kind "pkg" (Hypothesis): 2-7 classes spread over 1-3 modules of a temporary package, bases reached through
    renamed from-imports (absolute/relative), `import pkg.m` + dotted path, module aliases, re-export chains of 1-4
    hops, re-export through the package `__init__` and wildcard imports; subscripted bases (`class B(A[int])`, A
    generic through `typing.Generic[T]` or an own `__class_getitem__`); classes defined inside classes, used as bases
    (`class B(A.Inner)`, also through imports of the host) and deriving from siblings / outer classes; external bases
    (builtins, undefined names, aliases into a package that is not loaded) sprinkled in; now and then back edges that
    make the graph cyclic. Two-distribution layouts: the first modules form a library of their own - a second top-level
    package, or top-level modules - whose module / package names repeat names used inside the first package and whose
    class names are repeated by their subclasses (`c07pkg.m2.C0(m2.C0)`, `c07pkg.m1.C0(pkg.m1.C0)`), reached through every
    import form but the wildcard. Half of the package cases carry a *history* played on one loader / modules collection: the
    package with the subclasses is loaded and every class queried while the bases' package is not loaded yet, then that
    package is loaded too ("late"); or everything is loaded and queried and one class is then replaced in its module
    through `set_member` by a class with other bases and members ("replace"). The answers for the final tree are judged.
    In package cases every class is judged a second time *through every module-level alias that leads to it* in the loaded
    tree (renamed imports, re-export hops, `__init__` re-exports, expanded wildcards): `alias.mro()`, `alias.inherited_members`,
    `alias.all_members`, `alias[name]` - inherited members must be inherited aliases under the alias's path, declared
    ones must not be flagged inherited and must target the class's own member.
  * every class defines a pseudo-random subset of 4 names as function / attribute / member class / property /
    staticmethod / classmethod, possibly `__init__` (with or without a `self.<name> = ...` instance attribute) and
    `__class_getitem__`.
Oracle
  CPython: each class statement is exec'ed in dependency order (`__mro__`, TypeError "Cannot create a consistent
  method resolution order", the first class `__dict__` along `__mro__` holding a name = the attribute CPython finds);
  forward-only "pkg" cases are also really imported from the files Griffe loads and the imported classes' `__mro__`
  is what Griffe is compared with.
"""

from __future__ import annotations

import importlib
import shutil
import sys
import tempfile
import types
from pathlib import Path

from vp.common.bootstrap import HarnessError
from vp.common.harness import Fail, call, derive_seed
from vp.gen import c07_hier as H

ID = "C07"
LEVEL = "exploration"
RULE = (
    "one-module hierarchies: exhaustive enumeration of all ordered base tuples (<=3 distinct bases among earlier classes) for exactly "
    "N classes (N=5 quick: 6560, N=6 thorough: 564160), consistent or not; cyclic graphs: all 4096 graphs of 3 classes with bases among "
    "all 3; multi-module packages: Hypothesis-constructed (2-7 classes, 1-3 modules, 11 import forms incl. 1-4 re-export hops, subscripted bases, "
    "classes defined in classes and used as bases, external bases, occasional back edges; half of them with a history on one loader: bases' package loaded after the "
    "subclasses were queried, or a class replaced through set_member between two rounds of queries); member placement (4 names x {absent, function, "
    "attribute, member class, property, staticmethod, classmethod}, __init__ with/without instance attribute) derived from the seed. Every class of "
    "every hierarchy is judged. non-trivial = some class has >=2 bases; distinct = distinct case model (bases, members, nesting, module layout, import forms)"
)
ASSUMPTIONS = [
    "CPython 3.12 is the reference: class statements are exec'ed (type.__new__ computes __mro__ or raises TypeError); 'the attribute CPython finds' for a name is "
    "the entry of the first class __dict__ along __mro__ that has it (what type.__getattribute__ does for these plain members)",
    "cyclic graphs cannot be built in CPython at all: a class whose ancestor graph contains a cycle is expected to be 'uncomputable' (ValueError from mro()); "
    "classes of the same graph whose ancestors are acyclic are judged against CPython on that sub-hierarchy",
    "a class deriving from a class CPython rejects is itself in a hierarchy CPython rejects: mro() must raise ValueError",
    "'reported as uncomputable' = Class.mro() raises ValueError and inherited_members is empty (what the anchored code documents); no other exception, no recursion",
    "external bases (builtins, undefined names, aliases into packages that are not loaded, typing.Generic[T]) are invisible to static analysis (docs: 'only classes from "
    "already loaded packages will be used'): the MRO is compared restricted to loaded classes, a class for which the external bases change CPython's verdict on the "
    "loaded classes (order or consistency, e.g. class C1(object, C0)) is outside the checked domain (labelled, counted, not judged), and a name CPython finds first "
    "in an external class's __dict__ (e.g. Exception.__init__) is not judged for that class",
    "members are class-body definitions: def / assignment / class / @property / @staticmethod / @classmethod / __init__ / __class_getitem__; a property is an attribute in "
    "Griffe's model; no class-body imports; an instance attribute never reuses a name the same class defines at class level",
    "instance attributes (self.x = ... in __init__) are declared members of their class in Griffe's model; that they are also *inherited* contradicts the property text "
    "(CPython's lookup through the MRO never finds them): known finding 'inherited-instance-attributes'; while it is listed, generated instance attributes only "
    "occur in classes nobody derives from",
    "package cases now and then list the same class twice among the bases of a class, each occurrence reached its own way (direct name, import, re-export): CPython's "
    "type.mro() refuses ('duplicate base class'), so the class and its descendants are expected to be uncomputable (the repository's own test pins B(A, A)); a repetition is "
    "never written subscripted next to the plain class under typing.Generic (typing's __mro_entries__ makes `class C(A[int], A)` one base)",
    "classes are nested up to 2 levels deep; a class statement only names classes that exist when CPython evaluates it: classes of the same body (bare name) or classes of an "
    "earlier, finished module-level tree (dotted path from module level); a nested class may repeat the name of a class that encloses it (class Node: class Meta: class Node), "
    "never the name of a class it could be confused with in valid Python (names are unique per body; module-level names unique per module)",
    "classes defined in a class body are numbered before their host (the order in which CPython finishes the class statements); a host never derives from a class of "
    "its own body and a nested class never from its host (no statement order makes that valid Python); the abstract oracle creates every class from a flat statement "
    "and attaches nested classes to their host afterwards - the real import of the generated files (same text Griffe reads) must agree, else harness error",
    "static analysis only (griffe.visit / griffe.load(allow_inspection=False)); wildcard import forms only with resolve_aliases=True (the loader expands them only then) "
    "and never in packages with cyclic imports",
    "histories: the answer for the tree as it is when asked must equal CPython's view of that tree, whatever was loaded or asked before (docs: inherited members 'are "
    "re-computed everytime they are accessed'; base classes 'will be resolved' on every access); the replacement class of a 'replace' history is built with "
    "griffe.Class(name, bases=[<paths>]) + set_member, the documented producer API; its expectation is CPython's view of the hierarchy with that class replaced; "
    "no wildcard form in 'late' histories",
    "repeated names: a class may have the name of a class in another module (also of its own base, which is then reached through a renamed import or a dotted "
    "path, never by the bare same name - docs, limitation 2: `class SomeClass(SomeClass)` is not supported statically); no wildcard form between the two distributions",
    "module names: default m<k>; a third of the multi-module cases use names where the importing module's name is a string prefix of the imported module's name "
    "(mz / mz_x / mz_x_x, m1 / m10 / m100), all legal identifiers, never combined with the repeated-name (twin) layouts",
    "a member is what is registered under a key of `members` (CPython: a key of the class __dict__): in 'replace' histories the replacement class may register one member "
    "object under a second key through set_member (the tree API's `run = _run_impl`; the visitor never produces this, set_member is the documented producer API); the "
    "second name is then a declared member of that class and inherited by its subclasses, its final target is the one object (path under the object's own name)",
    "import forms only reach classes defined in the named module (re-export chains use renamed from-imports); module and member names never collide",
]
EXHAUSTIVE = True
EXHAUSTIVE_NOTE = {
    "quick": "all 6560 one-module hierarchies of exactly 5 classes (<=3 ordered distinct bases among earlier classes; every hierarchy of fewer classes is a prefix), "
    "every class judged, base orders CPython rejects included; all 4096 three-class graphs with bases among all three classes (self loops, cycles, forward references). "
    "Member placement: two seeded samples per graph, not exhaustive; the multi-module search is sampled, not exhaustive",
    "thorough": "all 564160 one-module hierarchies of exactly 6 classes (same alphabet), every class judged, base orders CPython rejects included; all 4096 three-class "
    "graphs with bases among all three classes. Member placement: one (hierarchies) / two (cyclic graphs) seeded samples per graph, not exhaustive; the multi-module search is sampled, not exhaustive",
}
BUDGET_S = {"quick": 90.0, "thorough": 1500.0}
SHRINK_MAX_EXAMPLES = 6000


# ----------------------------------------------------------------------------- Griffe side
def _load_one(case):
    import griffe

    code = H.render_one(case)
    mod = call("total", griffe.visit, "m", filepath=None, code=code, what="griffe.visit of\n" + code)
    mod.modules_collection["m"] = mod
    return [mod.members.get(f"C{i}") for i in range(len(case["bases"]))], code


def _write_pkg(files: dict[str, str]) -> Path:
    base = "/dev/shm" if Path("/dev/shm").is_dir() else None
    root = Path(tempfile.mkdtemp(prefix="verif-C07-", dir=base))
    for rel, text in files.items():
        p = root / rel
        p.parent.mkdir(parents=True, exist_ok=True)
        p.write_text(text)
    return root


def _find_classes(case, collection) -> list:
    out = []
    for i in range(len(case["mods"])):
        obj = collection
        for part in H.class_path(case, i).split("."):
            obj = obj.members.get(part) if obj is not None and not getattr(obj, "is_alias", False) else None
        out.append(obj)
    return out


def _query(g, path: str) -> None:
    """What a consumer does with a class: ask for its MRO and inherited members (ValueError = uncomputable)."""
    try:
        call("history", g.mro, what=f"{path}.mro() (earlier query of the history)", allowed=(ValueError,))
    except ValueError:
        pass
    call("history", lambda: dict(g.inherited_members), what=f"{path}.inherited_members (earlier query of the history)")


def _new_class(case, hist):
    """The replacement class of a "replace" history: bases given as paths, plain members."""
    import griffe

    j = hist["target"]
    new = griffe.Class(H.cls_name(case, j), bases=[H.class_path(case, b) for b in hist["bases"]])
    for name, k in zip(H.NAMES, hist["members"]):
        if k == 1:
            new.set_member(name, griffe.Function(name))
        elif k == 2:
            new.set_member(name, griffe.Attribute(name, value=f'"C{j}"'))
        elif k == 3:
            new.set_member(name, griffe.Class(name))
    if hist.get("also"):
        src, dst = hist["also"]
        new.set_member(H.NAMES[dst], new.members[H.NAMES[src]])  # the same object under a second key
    return new


def _load_pkg(case, root: Path, files):
    """Play the case's history on one loader; returns (classes judged before the last step or None, classes of the final tree)."""
    import griffe

    where = _show_files(files)
    loader = griffe.GriffeLoader(search_paths=[str(root)], allow_inspection=False)
    resolve = bool(case["resolve"])
    hist = case.get("history") or {}

    def load(name: str) -> None:
        call("total", loader.load, name, try_relative_path=False, what=f"GriffeLoader.load({name!r}) of " + where)
        if resolve:
            call("total", loader.resolve_aliases, what=f"resolve_aliases after loading {name!r} of " + where)

    late = hist.get("type") == "late"
    if not late:
        for top in H.lib_tops(case):
            load(top)
    load(H.PKG)
    before = None
    if hist.get("type") == "late":
        # the subclasses' package is there, the bases' package is not: every class is queried, then the rest is loaded
        for i, g in enumerate(_find_classes(case, loader.modules_collection)):
            if g is not None and not H.in_lib(case, case["mods"][i]):
                _query(g, H.class_path(case, i))
        for top in H.lib_tops(case):
            load(top)
    elif hist.get("type") == "replace":
        before = _find_classes(case, loader.modules_collection)
    return before, loader


def _show_files(files) -> str:
    return "\n".join(f"--- {rel}\n{text}" for rel, text in sorted(files.items()) if text.strip())


def _import_pkg(case, root: Path) -> list[list[str]]:
    """Really import the package in CPython; returns for each class the `__mro__[1:]` restricted to package classes (paths)."""
    import builtins

    injected = {name: type(name, (), {"__module__": H.NOTLOADED}) for name in ("Unk0", "Unk1")}
    ghost = types.ModuleType(H.NOTLOADED)
    ghost.Ext0 = type("Ext0", (), {"__module__": H.NOTLOADED})
    before = set(sys.modules)
    tops = {H.PKG, *H.lib_tops(case)}
    clash = tops & before
    if clash:
        raise HarnessError(f"generated top-level names {clash} are already imported in this process")
    sys.path.insert(0, str(root))
    sys.modules[H.NOTLOADED] = ghost
    for k, v in injected.items():
        setattr(builtins, k, v)
    importlib.invalidate_caches()
    try:
        out = []
        host = H.hosts(case)
        for i, m in enumerate(case["mods"]):
            mod = importlib.import_module(H.mod_path(case, m))
            cn = H.cls_name
            cls = mod
            for x in H.chain(host, i):
                cls = getattr(cls, cn(case, x))
            out.append([f"{c.__module__}.{c.__qualname__}" for c in cls.__mro__[1:] if c.__module__.split(".")[0] in tops])
        return out
    finally:
        for k in injected:
            delattr(builtins, k)
        sys.path.remove(str(root))
        for name in set(sys.modules) - before:
            if name.split(".")[0] in tops or name.startswith(("r1_", "r2_", "r3_", "r4_")):
                del sys.modules[name]
        sys.modules.pop(H.NOTLOADED, None)
        sys.path_importer_cache.pop(str(root), None)
        for top in tops:
            sys.path_importer_cache.pop(str(root / top), None)
        importlib.invalidate_caches()


# ----------------------------------------------------------------------------- judge
def _shape(case, i: int) -> str:
    """Short text of the hierarchy for messages (Ck@Ch: class k is defined in the body of class h)."""
    host = H.hosts(case)
    parts = []
    for k in range(len(case["bases"])):
        name = f"C{k}" if host[k] is None else f"C{k}@C{host[k]}"
        exprs = H.flat_base_exprs(case, k)
        parts.append(f"{name}({', '.join(exprs)})" if exprs else name)
    return "; ".join(parts) + f"  [class C{i}]"


SLUG_IA = "inherited-instance-attributes"


def judge_class(case, i: int, exp: dict, g, where: str) -> list[Fail]:
    fails: list[Fail] = []
    shape = _shape(case, i)
    path = H.class_path(case, i)
    if g is None or not getattr(g, "is_class", False) or getattr(g, "is_alias", False):
        # loading the class is C01/C05 territory, but without it nothing can be judged
        return [Fail("mro", "class-not-loaded", f"{shape}: {path} is not a class member of the loaded tree ({g!r})\n{where}")]
    own = set(H.declared_names(case, i))
    if not own <= set(g.members):
        # extraction of plain class-body definitions is C01 territory, but without them nothing can be judged
        return [Fail("mro", "declared-member-not-loaded", f"{shape}: {path} declares {sorted(own)}, loaded members are {sorted(g.members)}\n{where}")]

    # ---- clause: uncomputable hierarchies are reported as such
    if exp["status"] == "err":
        try:
            got = call("uncomputable", g.mro, what=f"{path}.mro()", allowed=(ValueError,))
        except ValueError:
            got = None
        if got is not None:
            fails.append(
                Fail(
                    "uncomputable",
                    f"returned[{exp['why']}]",
                    f"{shape}: CPython cannot build this class ({exp['why']}); mro() must raise ValueError, returned {[c.path for c in got]}\n{where}",
                )
            )
        inh = call("uncomputable", lambda: dict(g.inherited_members), what=f"{path}.inherited_members")
        if inh:
            fails.append(
                Fail("uncomputable", f"inherited-nonempty[{exp['why']}]", f"{shape}: uncomputable MRO ({exp['why']}) but inherited_members = {sorted(inh)}\n{where}")
            )
        # own members stay what they are
        allm = call("uncomputable", lambda: dict(g.all_members), what=f"{path}.all_members")
        for n in sorted(own):
            if allm.get(n) is not g.members[n]:
                fails.append(Fail("own-not-shadowed", "uncomputable", f"{shape}: all_members[{n!r}] is not the declared member\n{where}"))
        return fails

    # ---- clause: MRO equals CPython's
    want = [H.class_path(case, j) for j in exp["mro"]]
    try:
        mro = call("mro", g.mro, what=f"{path}.mro()", allowed=(ValueError,))
    except ValueError as exc:
        return [Fail("mro", "raised-ValueError", f"{shape}: CPython MRO {want}; mro() raised ValueError: {exc}\n{where}")]
    got = [c.path for c in mro]
    if got != want:
        if sorted(got) == sorted(want):
            kind = "wrong-order"
        elif set(got) == set(want):
            kind = "duplicates"
        elif set(got) < set(want):
            kind = "missing-class"
        elif set(got) > set(want):
            kind = "extra-class"
        else:
            kind = "different-classes"
        fails.append(Fail("mro", kind, f"{shape}: CPython MRO (loaded classes) {want}, Griffe {got}\n{where}"))
    if any(not getattr(c, "is_class", False) or getattr(c, "is_alias", False) for c in mro):
        fails.append(Fail("mro", "non-class-entry", f"{shape}: mro() holds aliases or non-classes: {mro!r}\n{where}"))

    # ---- clause: inherited members are exactly what CPython finds through the MRO
    attrs = exp["attrs"]
    skip_names = set(exp["ext_names"])  # first found in a class that is not loaded: no expectation
    ia = exp["ia"]  # a base's instance attribute precedes what CPython finds (Griffe lists it; CPython's lookup does not)
    cpy_own = {n for n, (definer, _) in attrs.items() if definer == i}
    if cpy_own != set(H.class_level_names(case, i)):
        raise HarnessError(f"oracle: class-level names {H.class_level_names(case, i)} vs CPython {attrs} for {shape}")
    want_inh = {n for n, (definer, _) in attrs.items() if definer != i and n not in own}
    inh = call("inherited", lambda: g.inherited_members, what=f"{path}.inherited_members")
    allm = call("inherited", lambda: g.all_members, what=f"{path}.all_members")
    for n in sorted((set(inh) | want_inh | (set(allm) - own)) - skip_names):
        detail = {"class": i, "name": n}
        cpy = f"{H.class_path(case, attrs[n][0])}.{H.target_name(case, attrs[n][0], n)}" if n in want_inh else None
        if n in inh and n not in want_inh:
            if n in own:
                fails.append(Fail("inherited-set", "own-name-listed", f"{shape}: inherited_members lists {n!r}, which {path} declares itself\n{where}", detail))
            elif n in ia:
                fails.append(
                    Fail(
                        "inherited-set",
                        "extra-instance-attribute",
                        f"{shape}: CPython finds no attribute {n!r} through the MRO of C{i}; inherited_members lists it (instance attribute assigned in C{ia[n]}.__init__)\n{where}",
                        detail,
                    )
                )
            else:
                fails.append(Fail("inherited-set", "extra", f"{shape}: CPython finds no attribute {n!r} through the MRO of C{i}; inherited_members lists it -> {inh[n].target_path}\n{where}", detail))
            continue
        if n in want_inh and n not in inh:
            fails.append(Fail("inherited-set", "missing", f"{shape}: CPython finds {cpy} for {n!r}; inherited_members of {path} lacks it (has {sorted(inh)})\n{where}", detail))
            continue
        if n not in want_inh:
            # in all_members but neither declared nor inherited
            fails.append(Fail("inherited-set", "phantom", f"{shape}: CPython finds no attribute {n!r}, all_members has it\n{where}", detail))
            continue
        if n not in allm:
            fails.append(Fail("inherited-set", "all_members-lacks", f"{shape}: inherited {n!r} is missing from all_members\n{where}", detail))
        definer, kcode = attrs[n]
        try:
            a = call("inherited", g.__getitem__, n, what=f"{path}[{n!r}]", allowed=(KeyError,))
        except KeyError:
            fails.append(Fail("inherited-lookup", "KeyError", f"{shape}: {path}[{n!r}] raised KeyError, CPython finds {cpy}\n{where}", detail))
            continue
        is_alias = getattr(a, "is_alias", False)
        # nearest definition wins
        tgt = call("inherited", lambda a=a: a.final_target.path, what=f"{path}[{n!r}].final_target.path") if is_alias else a.path
        if tgt != cpy:
            if n in ia and tgt == f"{H.class_path(case, ia[n])}.{n}":
                fails.append(
                    Fail(
                        "nearest-wins",
                        "instance-attribute-shadows-class-attribute",
                        f"{shape}: CPython finds {cpy} for {n!r}; Griffe's inherited member targets {tgt}, an instance attribute assigned in C{ia[n]}.__init__\n{where}",
                        detail,
                    )
                )
                continue
            fails.append(Fail("nearest-wins", "wrong-definer", f"{shape}: CPython finds {cpy} for {n!r}, Griffe's inherited member targets {tgt}\n{where}", detail))
        # presented as inherited alias under the subclass's own path
        if not is_alias:
            fails.append(Fail("inherited-alias", "not-an-alias", f"{shape}: {path}[{n!r}] is {a!r}, not an alias\n{where}", detail))
            continue
        if a.inherited is not True:
            fails.append(Fail("inherited-alias", "flag", f"{shape}: {path}[{n!r}].inherited is {a.inherited!r}\n{where}", detail))
        if a.path != f"{path}.{n}":
            fails.append(Fail("inherited-alias", "path", f"{shape}: {path}[{n!r}].path is {a.path!r}, expected {path}.{n}\n{where}", detail))
        gk = call("inherited", lambda a=a: a.kind.value, what=f"{path}[{n!r}].kind")
        if gk != H.KIND_NAME[kcode]:
            fails.append(Fail("nearest-wins", "kind", f"{shape}: {path}[{n!r}] has kind {gk}, the nearest definition {cpy} is a {H.KIND_NAME[kcode]}\n{where}", detail))
        if inh[n].target_path != cpy and call("inherited", lambda n=n: inh[n].final_target.path, what=f"inherited_members[{n!r}].final_target") != cpy:
            fails.append(Fail("nearest-wins", "inherited_members-entry", f"{shape}: inherited_members[{n!r}] targets {inh[n].target_path}, expected {cpy}\n{where}", detail))
    # ---- clause: never shadow a member the class declares itself
    for n in sorted(own):
        m = g.members[n]
        if allm.get(n) is not m:
            fails.append(Fail("own-not-shadowed", "all_members", f"{shape}: all_members[{n!r}] is {allm.get(n)!r}, not the declared member {m!r}\n{where}"))
        got_item = call("inherited", g.__getitem__, n, what=f"{path}[{n!r}]")
        if got_item is not m:
            fails.append(Fail("own-not-shadowed", "getitem", f"{shape}: {path}[{n!r}] is {got_item!r}, not the declared member {m!r}\n{where}"))
        if getattr(m, "inherited", False):
            fails.append(Fail("own-not-shadowed", "flag", f"{shape}: declared member {n!r} is flagged inherited\n{where}"))
    return fails


def _class_aliases(collection, gclasses) -> list:
    """Every module-level alias of the loaded tree that leads to one of the judged classes: (alias, class index, hops)."""
    from _griffe.exceptions import AliasResolutionError, CyclicAliasError

    index = {id(g): i for i, g in enumerate(gclasses) if g is not None}
    out = []

    def walk(mod) -> None:
        for name in sorted(mod.members):
            member = mod.members[name]
            if member.is_alias:
                try:
                    target = member.final_target
                    hops, t = 1, member.target
                    while getattr(t, "is_alias", False):
                        hops, t = hops + 1, t.target
                except (AliasResolutionError, CyclicAliasError):
                    continue
                if id(target) in index:
                    out.append((member, index[id(target)], hops))
            elif member.is_module:
                walk(member)

    for top in sorted(collection.members):
        walk(collection.members[top])
    return out


def judge_alias_view(case, i: int, exp: dict, al, where: str) -> list[Fail]:
    """The member clauses again, for the class reached through an import / re-export: `collection[alias_path]`.
    Inherited members must be presented as inherited aliases under the *alias's* path, declared ones as not inherited."""
    fails: list[Fail] = []
    ap = al.path
    shape = f"{_shape(case, i)} reached as {ap}"
    path = H.class_path(case, i)
    if exp["status"] == "err":
        try:
            got = call("alias-view", al.mro, what=f"{ap}.mro()", allowed=(ValueError,))
            fails.append(Fail("alias-view", "uncomputable-returned", f"{shape}: CPython cannot build the class ({exp['why']}); mro() through the alias returned {[c.path for c in got]}\n{where}"))
        except ValueError:
            pass
        inh = call("alias-view", lambda: dict(al.inherited_members), what=f"{ap}.inherited_members")
        if inh:
            fails.append(Fail("alias-view", "uncomputable-inherited-nonempty", f"{shape}: uncomputable MRO but inherited_members through the alias = {sorted(inh)}\n{where}"))
        return fails
    want = [H.class_path(case, j) for j in exp["mro"]]
    try:
        got = [c.path for c in call("alias-view", al.mro, what=f"{ap}.mro()", allowed=(ValueError,))]
    except ValueError as exc:
        return [Fail("alias-view", "mro-raised-ValueError", f"{shape}: CPython MRO {want}; mro() through the alias raised ValueError: {exc}\n{where}")]
    if got != want:
        fails.append(Fail("alias-view", "mro", f"{shape}: CPython MRO (loaded classes) {want}, through the alias {got}\n{where}"))
    attrs = exp["attrs"]
    own = set(H.declared_names(case, i))
    unjudged = set(exp["ext_names"]) | set(exp["ia"])  # no expectation / already reported as the known finding on the class itself
    want_inh = {n for n, (definer, _) in attrs.items() if definer != i and n not in own} - unjudged
    inh = call("alias-view", lambda: al.inherited_members, what=f"{ap}.inherited_members")
    allm = call("alias-view", lambda: al.all_members, what=f"{ap}.all_members")
    if set(inh) - unjudged != want_inh:
        fails.append(Fail("alias-view", "inherited-keys", f"{shape}: CPython inherits {sorted(want_inh)}, inherited_members through the alias has {sorted(set(inh) - unjudged)}\n{where}"))
    if set(allm) - unjudged != want_inh | own:
        fails.append(Fail("alias-view", "all_members-keys", f"{shape}: all_members through the alias has {sorted(set(allm) - unjudged)}, expected {sorted(want_inh | own)}\n{where}"))
    for n in sorted(want_inh):
        cpy = f"{H.class_path(case, attrs[n][0])}.{H.target_name(case, attrs[n][0], n)}"
        views = [("inherited_members", inh.get(n)), ("all_members", allm.get(n))]
        try:
            views.append(("item access", call("alias-view", al.__getitem__, n, what=f"{ap}[{n!r}]", allowed=(KeyError,))))
        except KeyError:
            fails.append(Fail("alias-view", "getitem-KeyError", f"{shape}: {ap}[{n!r}] raised KeyError, CPython finds {cpy}\n{where}"))
        for how, m in views:
            if m is None:
                continue
            if not getattr(m, "is_alias", False):
                fails.append(Fail("alias-view", "inherited-not-an-alias", f"{shape}: {n!r} via {how} is {m!r}\n{where}"))
                continue
            if m.inherited is not True:
                fails.append(Fail("alias-view", "inherited-flag", f"{shape}: inherited member {n!r} via {how} has inherited={m.inherited!r}: presented as if {ap} declared it\n{where}"))
            if m.path != f"{ap}.{n}":
                fails.append(Fail("alias-view", "inherited-path", f"{shape}: inherited member {n!r} via {how} has path {m.path!r}, expected {ap}.{n}\n{where}"))
            tgt = call("alias-view", lambda m=m: m.final_target.path, what=f"{ap}.{n} final_target")
            if tgt != cpy:
                fails.append(Fail("alias-view", "inherited-target", f"{shape}: CPython finds {cpy} for {n!r}; via {how} the member targets {tgt}\n{where}"))
    for n in sorted(own):
        m = allm.get(n)
        if m is None:
            continue  # reported by all_members-keys
        if getattr(m, "inherited", False):
            fails.append(Fail("alias-view", "declared-flag", f"{shape}: declared member {n!r} is presented as inherited through the alias\n{where}"))
        if m.path != f"{ap}.{n}":
            fails.append(Fail("alias-view", "declared-path", f"{shape}: declared member {n!r} has path {m.path!r} through the alias, expected {ap}.{n}\n{where}"))
        tgt = call("alias-view", lambda m=m: m.final_target.path if m.is_alias else m.path, what=f"{ap}.{n} final_target")
        if tgt != f"{path}.{H.target_name(case, i, n)}":
            fails.append(Fail("alias-view", "declared-shadowed", f"{shape}: declared member {n!r} through the alias targets {tgt}, expected {path}.{H.target_name(case, i, n)}\n{where}"))
    return fails


def _known_inherited_instance_attribute(case, fail: Fail) -> bool:
    """Known finding: the only thing wrong is that an instance attribute assigned in a base class's `__init__` is listed
    as inherited member (CPython's lookup through the MRO finds nothing) or wins over the class-level definition CPython
    finds farther along the MRO. Verified on the model: the named class really has such an instance attribute first."""
    if fail.bucket.split("[")[0] not in ("inherited-set/extra-instance-attribute", "nearest-wins/instance-attribute-shadows-class-attribute"):
        return False
    d = fail.detail or {}
    exp = H.oracle(H.final_case(case) if d.get("final") else case)[d["class"]]
    return exp["status"] == "ok" and d["name"] in exp["ia"]


KNOWN = {SLUG_IA: _known_inherited_instance_attribute}


# ----------------------------------------------------------------------------- entry points
_LAST: list = [None, None, (0, 0)]  # (case object, its expectation): lets `describe` reuse the oracle result of the check


def _expect_of(case):
    if _LAST[0] is case:
        return _LAST[1]
    return H.oracle(case)


def evaluate(case):
    """-> (fails, expectation of the final tree)."""
    expect = H.oracle(case)
    kind = case["kind"]
    fails: list[Fail] = []
    if kind in ("one", "cyc"):
        gclasses, code = _load_one(case)
        _LAST[0], _LAST[1], _LAST[2] = case, expect, (0, 0)
        for i, exp in enumerate(expect):
            if exp["status"] != "skip":
                fails.extend(judge_class(case, i, exp, gclasses[i], code))
        return fails, expect
    if kind != "pkg":
        raise HarnessError(f"unknown case kind {kind!r}")
    files = H.render_pkg(case)
    where = _show_files(files)
    hist = case.get("history") or {}
    orig, expect0 = case, expect
    root = _write_pkg(files)
    try:
        real = None
        if _importable(case, expect):
            try:
                real = _import_pkg(case, root)
            except Exception as exc:  # noqa: BLE001
                raise HarnessError(f"CPython could not import the generated package: {exc!r}\n{where}") from exc
        before, loader = _load_pkg(case, root, files)
    finally:
        shutil.rmtree(root, ignore_errors=True)
    if real is not None:
        # the really imported package is the reference; the abstract oracle must agree with it (rendering self-check)
        for i, exp in enumerate(expect):
            if exp["status"] == "ok" and real[i] != [H.class_path(case, j) for j in exp["mro"]]:
                raise HarnessError(f"oracle mismatch: imported MRO {real[i]} vs abstract {exp['mro']}\n{where}")
    if hist.get("type") == "late":
        where = f"[history: {H.PKG} loaded and every class queried, then {H.lib_tops(case)} loaded into the same collection]\n" + where
    if hist.get("type") == "replace":
        # first state: the tree as loaded (an ordinary case); every class is judged = queried
        for i, exp in enumerate(expect):
            if exp["status"] != "skip":
                fails.extend(judge_class(case, i, exp, before[i], where))
        j = hist["target"]
        new = _new_class(case, hist)
        parent = before[j].parent if before[j] is not None else None
        if parent is None:
            _LAST[0], _LAST[1], _LAST[2] = orig, expect0, (0, 0)
            return fails, expect0
        call("history", parent.set_member, H.cls_name(case, j), new, what=f"{parent.path}.set_member({H.cls_name(case, j)!r}, <new class>)")
        case = H.final_case(case)
        expect = H.oracle(case)
        where = (
            f"[history: everything loaded and queried, then {H.class_path(case, j)} replaced through set_member by a class with bases "
            f"{[H.class_path(case, b) for b in hist['bases']]} and members {dict((n, H.KIND_NAME[k]) for n, k in zip(H.NAMES, hist['members']) if k)}"
            + (f", member {H.NAMES[hist['also'][0]]!r} also registered under the key {H.NAMES[hist['also'][1]]!r}" if hist.get("also") else "")
            + "]\n" + where
        )
    gclasses = _find_classes(case, loader.modules_collection)
    for i, exp in enumerate(expect):
        if exp["status"] == "skip":
            continue
        for f in judge_class(case, i, exp, gclasses[i], where):
            if hist:
                # same clause, own bucket: the answer is only wrong because of what happened before
                f = Fail(f.clause, f"{f.kind}[after-{hist['type']}]", f.message, {**(f.detail or {}), "final": True})
            fails.append(f)
    # the same classes reached through every import / re-export that leads to them
    n_views = n_far = 0
    for al, i, hops in _class_aliases(loader.modules_collection, gclasses):
        if expect[i]["status"] == "skip":
            continue
        n_views += 1
        n_far += hops >= 2
        for f in judge_alias_view(case, i, expect[i], al, where):
            if hist:
                f = Fail(f.clause, f"{f.kind}[after-{hist['type']}]", f.message, f.detail)
            fails.append(f)
    _LAST[0], _LAST[1], _LAST[2] = orig, expect0, (n_views, n_far)
    return fails, expect0


def check_case(case) -> list[Fail]:
    return evaluate(case)[0]


def describe(case, expect):
    feats = H.features(case, expect)
    kind = case["kind"]
    classes = {f"{kind}:{f}" for f in feats}
    classes.add(f"{kind}:cases")
    if kind == "pkg":
        forms = {f for i, bs in enumerate(case["bases"]) for k, b in enumerate(bs) if isinstance(b, int) for f in case["via"][i][k]}
        classes |= {f"pkg:form-{f}" for f in forms}
        classes.add(f"pkg:modules={max(case['mods']) + 1}")
        classes.add("pkg:really-imported" if _importable(case, expect) else "pkg:abstract-oracle-only")
        classes.add(f"pkg:resolve_aliases={bool(case['resolve'])}")
        if _LAST[0] is case and _LAST[2][0]:
            classes.add("pkg:classes-judged-through-aliases")
            if _LAST[2][1]:
                classes.add("pkg:classes-judged-through-aliases:2+hops")
        if case.get("modnames"):
            classes.add("pkg:module-name-is-prefix-of-sibling-module-name")
            if any(
                isinstance(b, int) and H.mod_path(case, case["mods"][b]).startswith(H.mod_path(case, case["mods"][i])) and case["mods"][b] != case["mods"][i]
                for i, bs in enumerate(case["bases"]) for b in bs
            ):
                classes.add("pkg:module-name-is-prefix-of-sibling-module-name:base-imported-from-it")
        lib = case.get("lib")
        if lib:
            classes.add(f"pkg:two-distributions:{lib['style']}:{'twin-names' if case.get('clsnames') else 'unique-names'}")
            paths = [H.class_path(case, i) for i in range(len(case["bases"]))]
            anc = H.ancestors(case["bases"])
            if any(paths[i].endswith("." + paths[a]) or paths[i].endswith(paths[a]) and paths[i] != paths[a] for i in range(len(paths)) for a in anc[i]):
                classes.add("pkg:class-path-ends-with-ancestor-path")
        hist = case.get("history")
        if hist:
            classes.add(f"pkg:history-{hist['type']}")
            if hist["type"] == "late":
                s = case["lib"]["split"]
                if any(isinstance(b, int) and case["mods"][b] < s <= case["mods"][i] for i, bs in enumerate(case["bases"]) for b in bs):
                    classes.add("pkg:history-late:class-derives-from-late-package")
            else:
                j = hist["target"]
                if any(j in anc for anc in H.ancestors(case["bases"])):
                    classes.add("pkg:history-replace:target-has-descendants")
                if hist.get("also"):
                    classes.add("pkg:history-replace:member-under-second-key")
                if sorted(hist["bases"]) != sorted(H.int_bases(case["bases"][j])) or list(hist["bases"]) != H.int_bases(case["bases"][j]):
                    classes.add("pkg:history-replace:bases-change")
    nontrivial = "multi-base" in feats
    return nontrivial, sorted(classes)


def _importable(case, expect) -> bool:
    """CPython can import the package iff every edge points backwards and every class statement succeeds."""
    return H.is_forward(case["bases"]) and all(e["built"] for e in expect)


def _enumerate(ctx, kind: str, space, placements: int) -> None:
    """Every graph of the space (index-sharded), each with `placements` seed-derived member placements."""
    from vp.common.harness import run_check

    n_checked = 0
    steer = SLUG_IA in ctx.known  # known finding: no instance attribute in a class somebody derives from
    for index in range(ctx.shard, space.size, ctx.nshards):
        n_checked += 1
        if n_checked % 64 == 0 and ctx.out_of_budget():
            break
        bases = space.decode(index)
        for p in range(placements):
            # 4 bits per (class, name): two 64-bit seed-derived words cover 6 classes x 4 names
            tag = f"c07:{kind}:{space.n}:{index}:{p}"
            bits = derive_seed(ctx.base_seed, 0, tag) | (derive_seed(ctx.base_seed, 1, tag) << 64)
            members = H.members_from_bits(bits, space.n)
            ibits = derive_seed(ctx.base_seed, 2, tag)
            init = H.init_from_bits(ibits, members, bases, leaf_only=steer)
            if steer and init != H.init_from_bits(ibits, members, bases, leaf_only=False):
                ctx.excluded(SLUG_IA)
            case = {"kind": kind, "bases": bases, "members": members, "init": init}
            fails = run_check(check_case, case)
            nontrivial, classes = describe(case, _expect_of(case))
            sample = case if (index * placements + p) % 1013 == 5 else None
            ctx.case(1 if nontrivial else None, classes, sample, enumerated=True)
            for f in fails:
                ctx.fail(f, case)


def strategy(ctx):
    from vp.gen import c07_strategy

    return c07_strategy.pkg_cases(leaf_only_instance_attrs=SLUG_IA in ctx.known), "pkg"


def run_shard(ctx) -> None:
    n = ctx.scale(5, 6)
    acyclic = H.AcyclicSpace(n)
    cyclic = H.CyclicSpace(3)
    if ctx.shard == 0:
        ctx.res.extra["one_module_hierarchies"] = acyclic.size
        ctx.res.extra["cyclic_graphs"] = cyclic.size
        ctx.res.extra["member_placements_per_graph"] = ctx.scale(2, 1)
    # the exhaustive parts first: a wall-clock budget that runs out (busy machine) then only cuts the sampled search
    ctx.res.extra["enum_complete"] = False
    _enumerate(ctx, "cyc", cyclic, 2)
    _enumerate(ctx, "one", acyclic, ctx.scale(2, 1))
    ctx.res.extra["enum_complete"] = not ctx.res.budget_exhausted
    strat, salt = strategy(ctx)
    steer = SLUG_IA in ctx.known

    def desc(case):
        nontrivial, classes = describe(case, _expect_of(case))
        if steer and case.get("ia_steered"):
            ctx.excluded(SLUG_IA)
        return (case if nontrivial else None), classes, case

    ctx.run_hypothesis(strat, check_case, ctx.scale(1000, 12000), describe=desc, salt=salt)
