"""C04 — Names in expressions resolve to the object Python scoping binds them to.

Domain: importable packages (vp/gen/c05_pkg.py: 2-4 modules, every import form, relative levels 1-3, __init__ and plain
modules, re-export chains, wildcard imports from plain modules) enriched by vp/gen/c04_sites.py with scope classes
(members named like the module globals, nested up to depth 3) and reference sites: attribute annotations and values,
string annotations, parameter annotations / defaults, return annotations, base classes and decorators that mention bare
names and dotted chains, at module level and inside (nested) class bodies.

Oracle: CPython. The package is imported; each site's expression has been evaluated by the interpreter at that point
(__annotations__, attribute values, __defaults__, __bases__, the tag a decorator leaves on what it decorates) and the
resulting object carries its definition site (c05 tagging). String annotations are evaluated after the import the way
typing.get_type_hints does (module globals, then the class namespace); a NameError means "no static binding".

Clauses
  resolves   the expression's canonical_path, followed through the loaded and alias-resolved collection, ends at the
             definition (path, kind, same definition serial) of the object CPython bound
  unchanged  builtins and unknown names come back unchanged (canonical_path == source text)
  justified  the path returned for the root identifier is the path of a definition of that name, or the target of an
             import statement binding it, in a scope Python searches from the site (current class body, module)
  decorator  Decorator.callable_path equals the canonical path of the decorator expression
  total      canonical_path / Object.resolve never raise anything (NameResolutionError from Object.resolve is its
             documented way of saying "unknown")
"""

from __future__ import annotations

import builtins
import shutil
import types

from vp.common.bootstrap import HarnessError
from vp.common.harness import Fail, call
from vp.gen import c04_sites as S
from vp.gen import c05_pkg as G
from vp.props import c05 as C05

ID = "C04"
LEVEL = "exploration"
RULE = (
    "Hypothesis-generated packages (2-4 modules, every import form) with scope classes and 0-3 reference sites per scope "
    "(module, class, nested class); each site expression is a bare name or dotted chain chosen from everything Python can "
    "evaluate at that point (string annotations: anything). non-trivial site = the root identifier is bound at >=2 scope "
    "levels, or reached through an aliased / relative / dotted import, a re-export chain or a module alias chain; a case "
    "is non-trivial if it has such a site; distinct = distinct package model"
)
ASSUMPTIONS = [
    "CPython 3.12 evaluating the site at import time is the reference for 'the object Python would bind'; string "
    "annotations are resolved like typing.get_type_hints (final module globals, final class namespace)",
    "a dotted path returned by Griffe denotes the object found by following it through the loaded, alias-resolved "
    "collection (DESIGN 4/C04); the property's 'path justified by a definition or import in scope' is checked through "
    "that: the path must exist and end at CPython's object, and unknown names / builtins must come back unchanged",
    "stub-only variant: modules listed in case['stubs'] are loaded by Griffe from .pyi / __init__.pyi files with the same "
    "text that CPython imports as .py (a stub has the scoping of the module it describes)",
    "the only external import is `from typing import Literal as Lit<i>` (a fresh name per module); strings inside it are "
    "values: the expression must contain no identifier besides the subscripted name",
    "packages avoid every shape of the C05 loader findings (wildcards only from plain modules, plain __all__ lists), so "
    "that C04 does not depend on the pending C05 fixes",
    "scope classes may inherit from each other, but no attribute access goes through inheritance; attribute segments "
    "after a call / subscript root have no static binding (expected unchanged or relative to the root's path); inside "
    "function bodies only `__init__` methods with leading local imports and `self.x: N = N` statements (what the "
    "visitor stores); no PEP 563 modules",
    "the scope model in vp/gen/c04_sites.py (Python's rule next to a model of Object.resolve) only labels sites for "
    "steering / known-finding attribution; every verdict compares Griffe with CPython",
]
BUDGET_S = {"quick": 70.0, "thorough": 1500.0}
SHRINK_MAX_EXAMPLES = 4000

_BUILTIN_OBJECTS = {id(getattr(builtins, n)): n for n in S.BUILTINS}


def _scope_object(mods, modpath, qual):
    obj = mods[modpath]
    for q in qual:
        obj = vars(obj)[q]
    return obj


def _expected(value, allmap):
    """CPython's object -> ("builtin", name) | ("object", classification)"""
    if id(value) in _BUILTIN_OBJECTS:
        return ("builtin", _BUILTIN_OBJECTS[id(value)])
    return ("object", C05.classify(value, allmap))


def _observe_cpython(case, top, mods):
    """{(site statement name, what): expectation}"""
    allmap: dict = {}
    for mod in case["mods"]:
        if any(s["t"] == "all" and s["op"] == "=" for s in mod["body"]):
            obj = vars(mods[mod["path"]]).get("__all__")
            allmap.setdefault(id(obj), []).append(G.dotted(top, mod["path"]) + ".__all__")
    out = {}
    for modpath, qual, st_ in S.all_sites(case):
        scope = _scope_object(mods, modpath, qual)
        ns = vars(scope)
        name = st_["name"]
        instance = None
        for site in st_["sites"]:
            what = site["what"]
            if what.startswith("init"):
                if instance is None:
                    instance = scope()  # runs the local imports of __init__ and records the bindings
                out[(site["id"], what)] = _expected(vars(instance)[site["id"]], allmap)
                continue
            if what == "ann":
                value = ns["__annotations__"][name]
            elif what == "val":
                value = ns[name]
            elif what == "param-ann":
                value = ns[name].__annotations__["p"]
            elif what == "returns":
                value = ns[name].__annotations__["return"]
            elif what == "param-default":
                value = ns[name].__defaults__[0]
            elif what == "base":
                value = ns[name].__bases__[0]
            elif what == "strcall":
                out[(name, what)] = ("nostatic", site["suffix"])
                continue
            elif what == "literal":
                import typing

                value = ns["__annotations__"][name]  # CPython: a typing.Literal[...] of plain strings
                if typing.get_origin(value) is not typing.Literal or not all(isinstance(a, str) for a in typing.get_args(value)):
                    raise HarnessError(f"literal site {name} evaluated to {value!r}")
                out[(name, what)] = ("literal", list(typing.get_args(value)))
                continue
            elif what.startswith("deco"):
                k = int(what[4:])
                tags = ns[name]._decos  # application order: bottom-up; the last len(decos) entries are this object's
                tag = tags[-1 - k]
                path, serial = tag.rsplit("#", 1)
                out[(name, what)] = ("object", {"paths": {path}, "kind": "function", "doc": tag})
                continue
            elif what == "str":
                expr = site["expr"].replace("$TOP", top)
                localns = dict(ns) if isinstance(scope, type) else {}
                try:
                    value = eval(expr, vars(mods[modpath]), localns)  # noqa: S307
                except NameError:
                    out[(name, what)] = ("unknown", expr)
                    continue
            else:
                raise HarnessError(f"unknown site kind {what}")
            out[(name, what)] = _expected(value, allmap)
    return out


def _griffe_expr(gobj, st_, what):
    if what in ("ann", "str", "strcall", "init-ann", "literal"):
        return gobj.annotation
    if what in ("val", "init-val"):
        return gobj.value
    if what == "param-ann":
        return gobj.parameters["p"].annotation
    if what == "param-default":
        return gobj.parameters["p"].default
    if what == "returns":
        return gobj.returns
    if what == "base":
        return gobj.bases[0]
    if what.startswith("deco"):
        return gobj.decorators[int(what[4:])].value
    raise HarnessError(what)


def check_case(case) -> list[Fail]:
    import griffe
    from griffe import AliasResolutionError, CyclicAliasError

    top = G.unique_pkg_name("vr")
    root, own = C05.case_root(top)
    try:
        G.write_files(root, G.render(case, top))
        try:
            # observed while the package is still importable: `__init__` bodies import when instantiated
            mods = G.cpython_import(root, top, case, after=lambda m: _observe_cpython(case, top, m))
        except G.CPythonImportError as exc:
            raise HarnessError(f"generated package is not importable: {exc}") from exc
        expected = mods["$after"]
        stubs = case.get("stubs") or ()
        if stubs:
            # same text, but the listed modules exist only as .pyi / __init__.pyi in the tree Griffe loads
            groot = root.with_name(root.name + "_g")
            shutil.rmtree(groot, ignore_errors=True)
            G.write_files(groot, G.render(case, top, stubs))
        pkg = call(
            "total", griffe.load, top, search_paths=[str(groot if stubs else root)], allow_inspection=False, resolve_aliases=True,
            resolve_implicit=True, what="griffe.load(resolve_aliases=True, resolve_implicit=True)",
        )
        coll = pkg.modules_collection
        fails: list[Fail] = []
        norm = lambda s: str(s).replace(top, "P")  # noqa: E731
        src_text = lambda: G.show(case, "P") + (f"\n# stub-only (.pyi) in the tree Griffe loads: {list(stubs)}" if stubs else "")  # noqa: E731
        info = S.site_info(case)
        for modpath, qual, st_ in S.all_sites(case):
            for site in st_["sites"]:
                what = site["what"]
                sid = S.site_id(st_, site)
                # instance attributes assigned in __init__ are members of the class
                spath = ".".join([G.dotted(top, modpath), *qual, sid])
                try:
                    gobj = coll.get_member(spath)
                except KeyError:
                    # the module / class / attribute that holds the expression was not loaded at all
                    fails.append(
                        Fail("resolves", "site-object-missing", f"{norm(spath)}: the object holding `{norm(site['expr'])}` is not in the loaded tree\n{src_text()}",
                             {"site": sid, "what": what})
                    )
                    continue
                exp = expected[(sid, what)]
                text = site["expr"].replace("$TOP", top)
                where = f"{norm(spath)} [{what}] `{norm(text)}`"
                detail = {"site": sid, "what": what}
                feat = info[sid][what]["label"]
                gexpr = _griffe_expr(gobj, st_, what)
                if isinstance(gexpr, str):
                    gpath = gexpr
                else:
                    gpath = call("total", lambda e=gexpr: e.canonical_path, what=f"canonical_path of {where}")
                # Object.resolve on the root identifier must not raise anything but NameResolutionError
                if what.startswith("deco"):
                    cp = call("total", lambda d=gobj.decorators[int(what[4:])]: d.callable_path, what=f"callable_path of {where}")
                    if cp != gpath:
                        fails.append(Fail("decorator", "callable-path", f"{where}: callable_path={norm(cp)!r}, canonical path of the expression={norm(gpath)!r}\n{src_text()}", detail))
                if exp[0] == "literal":
                    # strings inside an (aliased) typing.Literal are values, not forward references: apart from the
                    # subscripted name itself the expression contains no identifier
                    names = [e for e in gexpr.iterate(flat=True) if isinstance(e, griffe.ExprName)] if isinstance(gexpr, griffe.Expr) else []
                    left = call("total", lambda e=gexpr: e.left.canonical_path, what=f"canonical_path of {where}") if isinstance(gexpr, griffe.ExprSubscript) else None
                    if left != "typing.Literal":
                        fails.append(Fail("resolves", "literal-alias", f"{where}: the subscripted name resolves to {left!r}, CPython bound typing.Literal\n{src_text()}", detail))
                    if len(names) > 1:
                        extra = [(n_.name, n_.canonical_path) for n_ in names[1:]]
                        fails.append(
                            Fail(
                                "unchanged",
                                "literal-string-parsed",
                                f"{where}: CPython's value is Literal{exp[1]} (plain strings); Griffe turned the strings into identifiers {norm(extra)}\n{src_text()}",
                                detail,
                            )
                        )
                    continue
                if exp[0] == "nostatic":
                    # attribute segments after a call / subscript root have no static binding: the chain comes back as
                    # written (what the unchanged tree does) or relative to the root's own canonical path - never as a
                    # path of something the enclosing scopes happen to bind under the same name
                    accept = {exp[1]}
                    if isinstance(gexpr, griffe.ExprAttribute) and isinstance(gexpr.values[0], griffe.Expr):
                        rootp = call("total", lambda e=gexpr.values[0]: e.canonical_path, what=f"canonical_path of the root of {where}")
                        accept.add(f"{rootp}.{exp[1]}")
                    if gpath not in accept:
                        fails.append(
                            Fail(
                                "unchanged",
                                "attribute-of-call-resolved",
                                f"{where}: the attribute segments hang off a call/subscript result (no static binding), Griffe returns "
                                f"{norm(gpath)!r}; expected one of {norm(sorted(accept))}\n{src_text()}",
                                detail,
                            )
                        )
                    continue
                if exp[0] in ("builtin", "unknown"):
                    if gpath != text:
                        fails.append(
                            Fail(
                                "unchanged",
                                f"{exp[0]}-resolved[{feat}]",
                                f"{where}: Python finds {'a builtin' if exp[0] == 'builtin' else 'no binding (NameError)'}, "
                                f"Griffe returns {norm(gpath)!r} instead of the name unchanged\n{src_text()}",
                                detail,
                            )
                        )
                    continue
                cobj = exp[1]
                # clause `justified`: the path returned for the root identifier is the path of a definition, or the
                # target of an import statement, of that name in a scope Python searches from here
                root_expr = gexpr.values[0] if isinstance(gexpr, griffe.ExprAttribute) else gexpr
                if isinstance(root_expr, griffe.ExprName):
                    root_path = root_expr.canonical_path
                    just = {j.replace("$TOP", top) for j in info[sid][what]["justified"]}
                    if root_path not in just and root_path not in cobj["paths"]:
                        fails.append(
                            Fail(
                                "justified",
                                f"unjustified[{feat}]",
                                f"{where}: the root identifier resolves to {norm(root_path)!r}; definitions/imports of that name in "
                                f"scope justify only {norm(sorted(just))}\n{src_text()}",
                                detail,
                            )
                        )
                if gpath in cobj["paths"]:
                    continue  # literally the definition path of CPython's object (also when a later re-binding hides it in the tree)
                try:
                    target = coll.get_member(gpath)
                    if target.is_alias:
                        target = target.final_target
                except (KeyError, AliasResolutionError, CyclicAliasError, ValueError) as exc:
                    fails.append(
                        Fail(
                            "resolves",
                            f"path-not-found[{feat}]",
                            f"{where}: Griffe returns {norm(gpath)!r}, which denotes nothing in the loaded tree ({type(exc).__name__}); "
                            f"CPython's object is {cobj['kind']} {norm(sorted(cobj['paths']))}\n{src_text()}",
                            detail,
                        )
                    )
                    continue
                # the property speaks of dotted paths: two definitions of one name in one scope share their path, so
                # neither the kind nor the definition serial is compared here
                same = target.path in cobj["paths"]
                if not same:
                    fails.append(
                        Fail(
                            "resolves",
                            f"wrong-object[{feat}]",
                            f"{where}: Griffe returns {norm(gpath)!r} -> {target.kind.value} {norm(target.path)}"
                            f"{' (' + norm(target.docstring.value) + ')' if target.docstring else ''}, CPython bound "
                            f"{cobj['kind']} {norm(sorted(cobj['paths']))}{' (' + norm(cobj.get('doc') or cobj.get('tag')) + ')' if cobj.get('doc') or cobj.get('tag') else ''}\n{src_text()}",
                            detail,
                        )
                    )
        return fails
    finally:
        shutil.rmtree(root.with_name(root.name + "_g"), ignore_errors=True)
        shutil.rmtree(own or root, ignore_errors=True)


# ------------------------------------------------------------------------------------------------ known findings
def _label(case, fail: Fail):
    d = fail.detail or {}
    return S.site_labels(case).get(d.get("site"), {}).get(d.get("what"))


def _known_outer(case, fail: Fail) -> bool:
    return fail.clause in ("resolves", "unchanged", "justified") and _label(case, fail) == S.SLUG_OUTER


def _known_order(case, fail: Fail) -> bool:
    return fail.clause in ("resolves", "unchanged", "justified") and _label(case, fail) == S.SLUG_ORDER


def _known_pkg(case, fail: Fail) -> bool:
    return fail.clause in ("resolves", "unchanged", "justified") and _label(case, fail) == S.SLUG_PKG


KNOWN = {S.SLUG_OUTER: _known_outer, S.SLUG_ORDER: _known_order, S.SLUG_PKG: _known_pkg}


# ------------------------------------------------------------------------------------------------ search
def strategy(ctx):
    avoid = frozenset(k for k in S.KNOWN_STEERING if k in ctx.known)
    return S.cases(avoid=avoid, on_excluded=ctx.excluded), "c04"


_STUB_LABEL = "stub-only-modules"
_NONTRIVIAL = ("shadowed", "import-as", "import-dotted", "relative-import", "re-export-chain", "via-module-alias", "dotted-module-path")


def describe(case):
    labels = set()
    nontrivial = False
    n = 0
    for modpath, qual, st_ in S.all_sites(case):
        scope = "module" if not qual else ("class" if len(qual) == 1 else "nested-class")
        for site in st_["sites"]:
            n += 1
            labels.add(f"site:{site['what'].rstrip('0123456789')}")
            labels.add(f"scope:{scope}")
            labels.add(f"label:{site['label']}")
            for f in site["features"]:
                labels.add("feature:" + (f if not f.startswith("relative-import") else f))
                if f.startswith(_NONTRIVIAL):
                    nontrivial = True
    if case.get("stubs"):
        labels.add(_STUB_LABEL)
        by = {m["path"]: m for m in case["mods"]}
        if any(by[p]["pkg"] for p in case["stubs"]):
            labels.add("stub-only-package(__init__.pyi)")
    labels.add(f"sites={min(n, 8)}{'+' if n >= 8 else ''}")
    labels.add(f"modules={len(case['mods'])}")
    sample = {"files": G.render(case, "P")} if nontrivial else None
    return (case if nontrivial else None), sorted(labels), sample


def run_shard(ctx) -> None:
    C05.use_scratch(ctx.tmp)
    strat, salt = strategy(ctx)
    ctx.run_hypothesis(strat, check_case, ctx.scale(1200, 25000), describe=describe, salt=salt)
