"""C02 — Function signatures equal CPython's view of the same definition.

Three searches, one oracle (CPython executes the very text Griffe visits, then `inspect.signature`,
`typing.get_overloads` and the `property` objects are consulted):

1. "sig": exhaustive enumeration of parameter-list shapes (counts of positional-only / positional-or-keyword / *var /
   keyword-only / **var, every legal number of trailing positional defaults incl. defaults spanning `/`, every
   keyword-only default mask) x every annotation mask (incl. the return annotation), each rendered as def / async def /
   method / staticmethod / classmethod and (un-annotated) as lambda attribute value, lambda class-attribute value and
   lambda parameter default; Hypothesis-sampled shapes above the enumerated bound.
2. "ovl": Hypothesis-generated overload groups (7 import forms of `overload`, module / class / nested class scope,
   static/class/async methods, groups with and without implementation, several names interleaved, unrelated statements
   in between).
3. "prop": Hypothesis-generated property groups (getter, setters/deleters in any order and multiplicity, two properties
   interleaved, unrelated members in between, nested classes).
4. "deco": Hypothesis-generated modules mixing sync and async definitions under the decorators Griffe knows (property,
   cached_property, staticmethod, classmethod, cache, lru_cache, abstractmethod, stacks of them) at module and class level:
   every definition CPython binds to a callable must be a Function with CPython's signature — in particular the ones that
   *follow* a decorated (async) definition, so that state carried from one definition to the next is observed inside one
   self-contained case.

Every annotated signature is additionally rendered with string-literal annotations, once in a module without PEP 563 (CPython
then reports the string's content) and once under PEP 563 enabled after a docstring / comments / other __future__ imports
(CPython then reports the literal's source text); property accessors are also stacked with label-producing decorators
(abstractmethod, cache, lru_cache) or written as `async def`; the three lambda renderings exist with and without PEP 563, and the
default pool holds strings that would parse as expressions ('utf-8', 'None', 'a.b', 'int'); every lambda Griffe reports is also re-evaluated from its rendered text and must have the
signature of CPython's lambda. Failures are re-checked alone in a process forked before the shard visited anything: only
failures that reproduce there are reported with their case (see _Pristine).
"""

from __future__ import annotations

import inspect
import typing

from vp.common.bootstrap import HarnessError
from vp.common.harness import Fail, call
from vp.gen import c02_groups as G
from vp.gen import c02_sig as S

ID = "C02"
LEVEL = "exploration"
RULE = (
    "sig: enumeration of (n_posonly, n_poskw, *var, n_kwonly, **var, number of trailing positional defaults, kw-only default mask) "
    "x annotation mask (parameters + return), every case rendered as def/async def/method/staticmethod/classmethod "
    "(+ 3 lambda renderings when un-annotated), Hypothesis-sampled shapes above the bound; non-trivial = >=2 parameter kinds "
    "or a default next to a `/` or `*` marker; distinct = distinct (parameter-list text, rendering). "
    "ovl: Hypothesis overload groups; non-trivial = some implementation with >=2 overloads, or >=2 groups interleaved in one scope; "
    "prop: Hypothesis property groups; non-trivial = a property with a setter or deleter; "
    "deco: Hypothesis modules of decorated sync/async definitions; non-trivial = an async def that follows a decorated async def; "
    "distinct = distinct module text"
)
ASSUMPTIONS = [
    "CPython 3.12 inspect.signature / typing.get_overloads / property objects are the reference; annotations are compared as "
    "text under `from __future__ import annotations` (CPython's own stringification), the default expression Griffe reports is evaluated and must "
    "denote CPython's default value (same type and repr; the pool includes literals whose text differs from repr: overflowing floats, hex, "
    "underscores, exponents, implicit str/bytes concatenation)",
    "for static/class methods the reference is the signature of the underlying function (__func__): Griffe reports the definition, not the bound view",
    "*args/**kwargs carry Griffe's documented pseudo defaults '()' / '{}'; has-default / required-ness is compared for non-variadic parameters only",
    "overload groups: per scope and name, overloads precede at most one implementation (no re-definition of an implementation, no overload after it); "
    "groups without implementation are generated but nothing is demanded of them beyond not being attached elsewhere",
    "property groups: setters/deleters are defined under the property's own name in the same class body, after the getter; the same "
    "accessors are also read through the inherited member of an empty subclass (Griffe: an Alias proxy; CPython: the same property object)",
    "annotation / default texts come from small position-indexed pools: names, subscripts, unions, literals in several notations, and a few "
    "composite forms (tuple inside a call / conditional / list inside a subscript; keyword arguments holding calls with keyword arguments, "
    "**mapping arguments) built from helper callables that return plain data; expression rendering at large is C03's subject",
    "string annotations are compared in a module without PEP 563, where CPython reports the content of the string; "
    "a lambda's reported text is compared by evaluating it (its defaults are literals) and taking inspect.signature",
    "definitions inside compound statements (if/elif/else, try/except/else/finally, match/case, with, for) and re-definitions are "
    "generated only in branches CPython executes, every other branch being empty: the binding CPython ends up with is then the last "
    "definition in source order, and which definition survives a branch that is NOT executed is left to C01",
    "definitions CPython binds to a property-like descriptor (property, cached_property) are modelled as attributes by Griffe and carry no signature to compare",
    "a failure counts with its case only if it reproduces when that case is checked alone in a pristine forked process; failures that "
    "depend on earlier visits are reported (once) only when the shard found no self-contained failure",
]
EXHAUSTIVE = True
EXHAUSTIVE_NOTE = {
    "quick": "all 1085 parameter-list shapes with <=5 parameters x all annotation masks (53,010 cases), 5 def renderings each plus the "
    "string-annotation rendering for annotated cases, 3 lambda renderings per un-annotated shape; overload/property/decorated groups and "
    "larger signatures are sampled (not exhaustive)",
    "thorough": "all 12171 parameter-list shapes with <=8 parameters; all annotation masks for <=7 parameters (1,039,378 annotated cases), 8 seeded masks "
    "per shape for 8 parameters; 5 def renderings each plus the string-annotation rendering, 3 lambda renderings per un-annotated shape; "
    "groups and larger signatures are sampled (not exhaustive)",
}
BUDGET_S = {"quick": 85.0, "thorough": 1500.0}

DEF_RENDERINGS = ("def", "async-def", "method", "staticmethod", "classmethod")
QUOTED_RENDERINGS = ("def-string-annotations", "def-string-annotations-pep563")
LAMBDA_RENDERINGS = ("lambda-attr", "lambda-class-attr", "lambda-default", "lambda-attr-no-pep563", "lambda-class-attr-no-pep563", "lambda-default-no-pep563")


# ----------------------------------------------------------------------------- CPython side
def cpython_exec(code: str, name: str = "c02_case") -> dict:
    """Execute generated text (side-effect free by construction). An exception here is a generator bug."""
    typing.clear_overloads()
    ns: dict = {"__name__": name, **S.HELPERS}
    try:
        exec(compile(code, f"<{name}>", "exec", dont_inherit=True), ns)  # noqa: S102  (dont_inherit: this file's own __future__ flags must not leak)
    except Exception as exc:  # noqa: BLE001
        raise HarnessError(f"generated module does not execute: {exc!r}\n{code}") from exc
    return ns


def unwrap(obj):
    return getattr(obj, "__func__", obj)


def griffe_visit(code: str, name: str = "c02_case"):
    import griffe

    return call("total", griffe.visit, name, filepath=None, code=code, what="griffe.visit")


def member(scope, name: str):
    """Own member of a Griffe module/class or None."""
    return scope.members.get(name)


def function_fails(where: str, what: str, gobj, pyfunc, annotations: bool = True) -> list[Fail]:
    """`gobj` must be a Griffe Function whose signature equals inspect.signature(pyfunc)."""
    if gobj is None or getattr(getattr(gobj, "kind", None), "value", None) != "function":
        return [Fail("member", where, f"{what}: expected a function member, Griffe has {gobj!r}")]
    py = S.py_view(inspect.signature(pyfunc), annotations)
    g = S.griffe_view(gobj.parameters, gobj.returns)
    return S.compare(where, what, g, py, annotations) + S.container_fails(where, what, gobj.parameters)


# ----------------------------------------------------------------------------- 1. signatures
def render_sig_module(m: dict) -> tuple[str, bool]:
    """All renderings of one signature model in one module. Returns (text, lambdas included)."""
    params = S.render_params(m)
    ret = S.render_returns(m)
    lines = [
        "from __future__ import annotations",
        f"def f({params}){ret}: ...",
        f"async def af({params}){ret}: ...",
        "class C:",
        f"    def m({params}){ret}: ...",
        "    @staticmethod",
        f"    def s({params}){ret}: ...",
        "    @classmethod",
        f"    def c({params}){ret}: ...",
    ]
    lambdas = m["ann"] == 0
    if lambdas:
        bare = S.render_params(m, annotations=False)
        sep = " " if bare else ""
        lines += [
            f"    la = lambda{sep}{bare}: 0",
            f"la = lambda{sep}{bare}: 0",
            f"def ld(h=lambda{sep}{bare}: 0, /): ...",
        ]
    return "\n".join(lines) + "\n", lambdas


# module headers that enable PEP 563 other than by a first-line `from __future__ import annotations`
PEP563_HEADERS = (
    '"""Module docstring."""\nfrom __future__ import annotations\n',
    '# comment\n\n"""Docstring."""\n\nfrom __future__ import annotations\n',
    "from __future__ import division\nfrom __future__ import annotations\n",
    '"""Doc."""\nfrom __future__ import generator_stop\nfrom __future__ import annotations\n',
    "#!/usr/bin/env python\n# -*- coding: utf-8 -*-\nfrom __future__ import annotations\n",
    '"""Doc."""\nfrom __future__ import division, annotations\n',
    "from __future__ import annotations, division\n",
)


def pep563_header(m: dict) -> str:
    return PEP563_HEADERS[(m["po"] + 2 * m["pk"] + 3 * m["ko"] + m["ann"] + m["npd"] + m["va"]) % len(PEP563_HEADERS)]


def render_quoted_module(m: dict, header: str = "") -> str:
    """The same parameter list with every annotation written as a string literal. Without PEP 563 (header ""), CPython reports
    the string's content, which is what Griffe reports for a string annotation it could parse; under PEP 563 (a header from
    PEP563_HEADERS) CPython reports the source text of the string literal, quotes included, and so must Griffe."""
    parts = []
    seen_star = False
    for i, (name, kind, ann, dflt) in enumerate(S.spec(m)):
        a = f": {ann!r}" if ann else ""
        d = "" if dflt is None else (f" = {dflt}" if a else f"={dflt}")
        if kind == "va":
            parts.append(f"*{name}{a}")
            seen_star = True
        elif kind == "vk":
            parts.append(f"**{name}{a}")
        elif kind == "ko":
            if not seen_star:
                parts.append("*")
                seen_star = True
            parts.append(f"{name}{a}{d}")
        else:
            parts.append(f"{name}{a}{d}")
            if kind == "po" and i == m["po"] - 1:
                parts.append("/")
    ret = f" -> {S.RETURN_TEXT!r}" if S.has_return(m) else ""
    return f"{header}def fq({', '.join(parts)}){ret}: ...\n"


def lambda_fails(where: str, what: str, expr, pyfunc) -> list[Fail]:
    from _griffe.expressions import ExprLambda

    if not isinstance(expr, ExprLambda):
        return [Fail("member", where, f"{what}: expected an ExprLambda, Griffe has {expr!r}")]
    py = S.py_view(inspect.signature(pyfunc), annotations=False)
    g = S.griffe_view(expr.parameters, None, lambda_=True)
    fails = S.compare(where, what, g, py, annotations=False)
    # the expression *text* Griffe reports must denote the same lambda: evaluate it and compare its signature
    text = str(expr)
    try:
        again = eval(text, dict(S.HELPERS))  # noqa: S307  (generated text: literals and the helper calls of the pool)
        view = S.py_view(inspect.signature(again), annotations=False)
    except Exception as exc:  # noqa: BLE001
        fails.append(Fail("default-expr", f"{where}:text-not-evaluable", f"{what}: Griffe renders the lambda as {text!r}, which does not evaluate: {exc!r}"))
    else:
        if view != py:
            fails.append(
                Fail(
                    "default-expr",
                    f"{where}:text-denotes-other-signature",
                    f"{what}: Griffe renders the lambda as {text!r} = {inspect.signature(again)}, CPython has {inspect.signature(pyfunc)}",
                )
            )
    return fails


def check_sig(m: dict) -> list[Fail]:
    if not S.legal(m):
        return []
    code, lambdas = render_sig_module(m)
    ns = cpython_exec(code)
    mod = griffe_visit(code)
    ptxt = S.render_params(m) + (" " + S.render_returns(m).strip() if S.has_return(m) else "")
    fails: list[Fail] = []
    cls = member(mod, "C")
    pyc = ns["C"]
    targets = [
        ("def", member(mod, "f"), ns["f"]),
        ("async-def", member(mod, "af"), ns["af"]),
        ("method", cls and member(cls, "m"), pyc.__dict__["m"]),
        ("staticmethod", cls and member(cls, "s"), unwrap(pyc.__dict__["s"])),
        ("classmethod", cls and member(cls, "c"), unwrap(pyc.__dict__["c"])),
    ]
    for where, gobj, pyf in targets:
        fails += function_fails(where, f"{where} ({ptxt})", gobj, pyf)
    if m["ann"]:
        qcode = render_quoted_module(m)
        qns = cpython_exec(qcode)
        qmod = griffe_visit(qcode)
        fails += function_fails("def-string-annotations", qcode.strip(), member(qmod, "fq"), qns["fq"])
        pcode = render_quoted_module(m, pep563_header(m))
        pns = cpython_exec(pcode)
        pmod = griffe_visit(pcode)
        fails += function_fails("def-string-annotations-pep563", repr(pcode), member(pmod, "fq"), pns["fq"])
    if lambdas:
        fails += lambda_rendering_fails(mod, ns, ptxt, "")
        # the same three lambda renderings in a module WITHOUT PEP 563 (string defaults of lambda parameters must stay strings)
        bare = S.render_params(m, annotations=False)
        sep = " " if bare else ""
        lcode = f"class C:\n    la = lambda{sep}{bare}: 0\nla = lambda{sep}{bare}: 0\ndef ld(h=lambda{sep}{bare}: 0, /): ...\n"
        fails += lambda_rendering_fails(griffe_visit(lcode), cpython_exec(lcode), ptxt, "-no-pep563")
    return fails


def lambda_rendering_fails(mod, ns: dict, ptxt: str, suffix: str) -> list[Fail]:
    fails: list[Fail] = []
    cls = member(mod, "C")
    pyc = ns["C"]
    la = member(mod, "la")
    cla = cls and member(cls, "la")
    ld = member(mod, "ld")
    fails += lambda_fails("lambda-attr" + suffix, f"la = lambda {ptxt}: 0", getattr(la, "value", None), ns["la"])
    fails += lambda_fails("lambda-class-attr" + suffix, f"C.la = lambda {ptxt}: 0", getattr(cla, "value", None), pyc.__dict__["la"])
    if ld is None or getattr(ld.kind, "value", None) != "function" or "h" not in ld.parameters:
        fails.append(Fail("member", "lambda-default" + suffix, f"def ld(h=lambda {ptxt}: 0, /): Griffe has {ld!r}"))
    else:
        fails += lambda_fails("lambda-default" + suffix, f"def ld(h=lambda {ptxt}: 0, /)", ld.parameters["h"].default, inspect.signature(ns["ld"]).parameters["h"].default)
    return fails


# ----------------------------------------------------------------------------- 2. overload groups
def _walk_scopes(body: list[dict], gscope, pyscope: dict, path: str):
    """Yield (path, items of this scope, griffe scope, python namespace) for the module and every class block."""
    yield path, body, gscope, pyscope
    for it in body:
        if it["t"] == "cls":
            gcls = member(gscope, it["name"]) if gscope is not None else None
            pycls = pyscope[it["name"]]
            yield from _walk_scopes(it["body"], gcls, dict(pycls.__dict__), f"{path}.{it['name']}" if path else it["name"])


def check_overloads(case: dict) -> list[Fail]:
    code = G.render_overload_module(case)
    try:
        ns = cpython_exec(code)
        mod = griffe_visit(code)
        fails: list[Fail] = []
        for path, items, gscope, pyscope in _walk_scopes(case["body"], mod, ns, ""):
            if gscope is None or getattr(gscope.kind, "value", "") not in ("module", "class"):
                fails.append(Fail("member", "scope", f"class {path} is not a class member in Griffe: {gscope!r}\n{code}"))
                continue
            groups: dict[str, list[dict]] = {}
            for it in items:
                if it["t"] == "fn":
                    groups.setdefault(it["name"], []).append(it)
                elif it["t"] == "other" and it["def"]:
                    groups.setdefault(f"o{it['v']}", []).append({"role": "impl", "wrap": ""})
            for name, group in groups.items():
                n_ov = sum(1 for it in group if it["role"] == "ov")
                has_impl = group[-1]["role"] == "impl"
                qual = f"{path}.{name}" if path else name
                if not has_impl:
                    # CPython binds the name to typing's dummy; the property only speaks about implementations.
                    continue
                pyf = unwrap(pyscope[name])
                py_ovs = [unwrap(o) for o in typing.get_overloads(pyf)]
                if len(py_ovs) != n_ov:
                    raise HarnessError(f"model has {n_ov} overloads of {qual}, CPython registered {len(py_ovs)}\n{code}")
                gf = member(gscope, name)
                what = f"{qual} ({n_ov} overloads)"
                sub = function_fails("overload-impl", f"implementation of {what}", gf, pyf)
                if sub:
                    fails += [Fail(f.clause, f.kind, f.message + "\n" + code) for f in sub]
                    continue
                g_ovs = list(gf.overloads or [])
                if len(g_ovs) != n_ov:
                    fails.append(
                        Fail(
                            "overloads-attached",
                            "count" if n_ov else "spurious",
                            f"{what}: typing.get_overloads gives {n_ov} overloads, Function.overloads has {len(g_ovs)}\n{code}",
                        )
                    )
                    continue
                for i, (go, po) in enumerate(zip(g_ovs, py_ovs)):
                    sub = function_fails("overload", f"overload #{i} of {what}", go, po)
                    if sub:
                        # a signature mismatch at the same index = wrong order / wrong owner (every signature is unique)
                        fails.append(Fail("overloads-order", sub[0].clause, sub[0].message + "\n" + code))
                        break
        return fails
    finally:
        typing.clear_overloads()


# ----------------------------------------------------------------------------- 3. property groups
def check_properties(case: dict) -> list[Fail]:
    code = G.render_property_module(case)
    ns = cpython_exec(code)
    mod = griffe_visit(code)
    fails: list[Fail] = []
    for path, items, gscope, pyscope in _walk_scopes(case["classes"], mod, ns, ""):
        if not path:
            continue
        if gscope is None or getattr(gscope.kind, "value", "") != "class":
            fails.append(Fail("member", "scope", f"class {path} is not a class member in Griffe: {gscope!r}\n{code}"))
            continue
        for it in items:
            if it["t"] == "meth":
                sub = function_fails("method-near-property", f"{path}.{it['name']}", member(gscope, it["name"]), pyscope[it["name"]])
                fails += [Fail(f.clause, f.kind, f.message + "\n" + code) for f in sub]
        for pname in sorted({it["p"] for it in items if it["t"] == "get"}):
            prop = pyscope[pname]
            if not isinstance(prop, property):
                raise HarnessError(f"{path}.{pname} is not a property in CPython\n{code}")
            what = f"property {path}.{pname}"
            attr = member(gscope, pname)
            if attr is None or getattr(attr.kind, "value", "") != "attribute" or "property" not in attr.labels:
                fails.append(
                    Fail("property-kept", "replaced", f"{what}: expected an attribute labelled 'property', Griffe has {attr!r} labels={getattr(attr, 'labels', None)}\n{code}")
                )
                continue
            gret = inspect.signature(prop.fget).return_annotation
            gret = None if gret is inspect.Signature.empty else gret
            if (None if attr.annotation is None else str(attr.annotation)) != gret:
                fails.append(Fail("property-kept", "annotation", f"{what}: getter returns {gret!r}, Griffe annotation {attr.annotation!r}\n{code}"))
            for role, pyacc, gacc, label in (("setter", prop.fset, attr.setter, "writable"), ("deleter", prop.fdel, attr.deleter, "deletable")):
                if (pyacc is None) != (gacc is None):
                    fails.append(
                        Fail("accessor-attached", f"{role}-presence", f"{what}: CPython {role} {'absent' if pyacc is None else 'present'}, Griffe {role}={gacc!r}\n{code}")
                    )
                    continue
                if (label in attr.labels) != (pyacc is not None):
                    fails.append(Fail("accessor-attached", f"{role}-label", f"{what}: CPython {role} present={pyacc is not None}, labels={sorted(attr.labels)}\n{code}"))
                if pyacc is not None:
                    sub = function_fails(role, f"{role} of {what}", gacc, pyacc)
                    fails += [Fail("accessor-attached", f"{role}-signature:{f.clause}", f.message + "\n" + code) for f in sub]
    fails += inherited_view_fails(case, mod, ns, code)
    return fails


def inherited_view_fails(case: dict, mod, ns: dict, code: str) -> list[Fail]:
    """The same accessors read through the inherited member of an empty subclass (an Alias in Griffe, the very same property
    object in CPython): setter / deleter must still be the ones attached to the property."""
    fails: list[Fail] = []
    # inherited members are resolved through the modules collection: register the visited module in its own collection
    call("total", mod.modules_collection.set_member, mod.name, mod, what="modules_collection.set_member")
    for cls in case["classes"]:
        sub_name = "S" + cls["name"]
        gsub = member(mod, sub_name)
        pysub = ns[sub_name]
        if gsub is None or getattr(gsub.kind, "value", "") != "class":
            fails.append(Fail("member", "scope", f"class {sub_name} is not a class member in Griffe: {gsub!r}\n{code}"))
            continue
        inherited = call("total", lambda g=gsub: g.all_members, what=f"{sub_name}.all_members")
        for pname in sorted({it["p"] for it in cls["body"] if it["t"] == "get"}):
            prop = inspect.getattr_static(pysub, pname)
            view = inherited.get(pname)
            what = f"property {cls['name']}.{pname} read as inherited member {sub_name}.{pname}"
            if view is None or "property" not in view.labels:
                fails.append(Fail("property-kept", "inherited-view:missing", f"{what}: Griffe has {view!r}\n{code}"))
                continue
            for role, pyacc, label in (("setter", prop.fset, "writable"), ("deleter", prop.fdel, "deletable")):
                gacc = call("total", lambda v=view, r=role: getattr(v, r), what=f"{sub_name}.{pname}.{role}")
                if (pyacc is None) != (gacc is None):
                    fails.append(
                        Fail("accessor-attached", f"inherited-view:{role}-presence", f"{what}: CPython {role} {'absent' if pyacc is None else 'present'}, Griffe {role}={gacc!r}\n{code}")
                    )
                    continue
                if pyacc is not None:
                    sub = function_fails(role, f"{role} of {what}", gacc, pyacc)
                    fails += [Fail("accessor-attached", f"inherited-view:{role}-signature:{f.clause}", f.message + "\n" + code) for f in sub]
    return fails


# ----------------------------------------------------------------------------- 4. decorated definitions, sync / async mixed
def check_decorated(case: dict) -> list[Fail]:
    code = G.render_decorated_module(case)
    ns = cpython_exec(code)
    mod = griffe_visit(code)
    fails: list[Fail] = []
    for scope, name, it in G.final_definitions(case):
        decos, binds = G.DECORATORS[it["deco"]]
        if binds == "prop":
            # CPython binds a property-like descriptor; Griffe models it as an attribute: no signature to compare
            continue
        gscope = member(mod, scope) if scope else mod
        pyobj = ns[scope].__dict__[name] if scope else ns[name]
        where = ("async-" if it["async"] else "") + "def@" + ("+".join(decos) or "plain") + ("" if not it.get("ctx") else ":in-" + G.CONTEXTS[it["ctx"]][0][-1].split()[0].rstrip(":"))
        what = f"{scope + '.' if scope else ''}{name}"
        sub = function_fails(where, what, member(gscope, name) if gscope is not None else None, unwrap(pyobj))
        fails += [Fail(f.clause, f.kind, f.message + "\n" + code) for f in sub]
    return fails


# ----------------------------------------------------------------------------- entry points
def check_case(case) -> list[Fail]:
    kind = case.get("kind")
    if kind == "sig":
        return check_sig(case)
    if kind == "ovl":
        return check_overloads(case)
    if kind == "prop":
        return check_properties(case)
    if kind == "deco":
        return check_decorated(case)
    raise HarnessError(f"unknown case kind {kind!r}")


def _ovl_stats(body: list[dict]) -> tuple[bool, set]:
    """(non-trivial?, class labels) of an overload case."""
    labels: set = set()
    nontrivial = False

    def scope(items: list[dict], depth: int) -> None:
        nonlocal nontrivial
        groups: dict[str, list[dict]] = {}
        order: list[str] = []
        for it in items:
            if it["t"] == "fn":
                groups.setdefault(it["name"], []).append(it)
                order.append(it["name"])
            elif it["t"] == "cls":
                scope(it["body"], depth + 1)
        # interleaved = some group is not contiguous
        runs = sum(1 for i, n in enumerate(order) if i == 0 or order[i - 1] != n)
        if runs > len(groups):
            labels.add("ovl:interleaved-groups")
            nontrivial = True
        for g in groups.values():
            n_ov = sum(1 for it in g if it["role"] == "ov")
            impl = g[-1]["role"] == "impl"
            if impl and n_ov >= 2:
                nontrivial = True
            labels.add(f"ovl:{'impl' if impl else 'no-impl'}+{min(n_ov, 2)}{'+' if n_ov >= 2 else ''}ov")
            if g[0]["wrap"]:
                labels.add(f"ovl:{g[0]['wrap']}method")
            if g[0]["async"]:
                labels.add("ovl:async")
            labels.add(f"ovl:scope-depth={depth}")

    scope(body, 0)
    return nontrivial, labels


def _prop_stats(classes: list[dict]) -> tuple[bool, set]:
    labels: set = set()
    nontrivial = False

    def scope(items: list[dict], depth: int) -> None:
        nonlocal nontrivial
        accs: dict[str, list[str]] = {}
        order = []
        for it in items:
            if it["t"] == "cls":
                scope(it["body"], depth + 1)
            elif it["t"] in ("get", "set", "del"):
                accs.setdefault(it["p"], []).append(it["t"])
                order.append(it["p"])
                decos, is_async = G.ACCESSOR_EXTRAS[it.get("x", 0)]
                role = {"get": "getter", "set": "setter", "del": "deleter"}[it["t"]]
                if decos:
                    labels.add(f"prop:{role}+{decos[0]}")
                if is_async:
                    labels.add(f"prop:async-{role}")
        runs = sum(1 for i, n in enumerate(order) if i == 0 or order[i - 1] != n)
        if runs > len(accs):
            labels.add("prop:interleaved")
        for seq in accs.values():
            kinds = set(seq[1:])
            if kinds:
                nontrivial = True
            labels.add("prop:" + ("+".join(sorted(kinds)) or "getter-only"))
            if len(seq) - 1 > len(kinds):
                labels.add("prop:accessor-redefined")
            if seq[1:2] == ["del"] and "set" in kinds:
                labels.add("prop:deleter-before-setter")
        if depth:
            labels.add("prop:nested-class")

    for c in classes:
        scope(c["body"], 0)
    return nontrivial, labels


def describe(case):
    kind = case["kind"]
    if kind == "sig":
        text = f"({S.render_params(case)}){S.render_returns(case)}"
        return ((text, "big") if S.nontrivial(case) else None), ["sig:sampled-above-bound", *("sig:" + f for f in S.features(case))], {"kind": "sig", "def": f"def f{text}: ..."}
    if kind == "ovl":
        nt, labels = _ovl_stats(case["body"])
        code = G.render_overload_module(case)
        return (code if nt else None), sorted(labels) + ["ovl:import=" + G.OVERLOAD_IMPORTS[case["imp"]][1]], {"kind": "ovl", "module": code}
    if kind == "deco":
        labels = set()
        seen_async_prop = seen_async_deco = nt = False
        for _, _, it in G.decorated_names(case):
            decos, binds = G.DECORATORS[it["deco"]]
            if it["async"] and binds != "prop":
                if seen_async_prop:
                    labels.add("deco:async-def-after-async-property")
                    nt = True
                if seen_async_deco:
                    labels.add("deco:async-def-after-decorated-async-def")
                    nt = True
            if it["async"] and decos:
                seen_async_deco = True
                if binds == "prop":
                    seen_async_prop = True
            labels.add("deco:" + ("async " if it["async"] else "") + ("+".join(decos) or "plain"))
            if it.get("ctx"):
                labels.add("deco:in-" + " ".join(G.CONTEXTS[it["ctx"]][0][-1].split()[:2]).rstrip(":"))
                nt = True
            if it.get("redef"):
                labels.add("deco:re-definition" + ("-in-compound-statement" if it.get("ctx") else ""))
        code = G.render_decorated_module(case)
        return (code if nt else None), sorted(labels), {"kind": "deco", "module": code}
    nt, labels = _prop_stats(case["classes"])
    code = G.render_property_module(case)
    return (code if nt else None), sorted(labels), {"kind": "prop", "module": code}


# ----------------------------------------------------------------------------- hermeticity of failures
class _Pristine:
    """A child forked at the start of the shard, before this process visited anything. For every failing case it forks a
    grandchild that re-runs check_case from that pristine state and reports the failing buckets. A failure that does not
    reproduce there depends on what the shard visited earlier (state leaking between visits); it could not be replayed from
    its case alone, so it is only reported when the shard has no self-contained failure at all."""

    def __init__(self) -> None:
        import json
        import os

        r1, w1 = os.pipe()
        r2, w2 = os.pipe()
        self.pid = os.fork()
        if self.pid == 0:
            code = 1
            try:
                os.close(w1)
                os.close(r2)
                with os.fdopen(r1, "r") as rin, os.fdopen(w2, "w") as wout:
                    for line in rin:
                        rr, ww = os.pipe()
                        g = os.fork()
                        if g == 0:
                            try:
                                os.close(rr)
                                from vp.common.harness import run_check

                                try:
                                    buckets = sorted({f.bucket for f in run_check(check_case, json.loads(line))})
                                except BaseException as exc:  # noqa: BLE001
                                    buckets = ["!error:" + repr(exc)[:200]]
                                os.write(ww, json.dumps(buckets).encode())
                            finally:
                                os._exit(0)
                        os.close(ww)
                        data = b""
                        while chunk := os.read(rr, 65536):
                            data += chunk
                        os.close(rr)
                        os.waitpid(g, 0)
                        wout.write((data.decode() or "[]") + "\n")
                        wout.flush()
                code = 0
            finally:
                os._exit(code)
        os.close(r1)
        os.close(w2)
        self.w = os.fdopen(w1, "w")
        self.r = os.fdopen(r2, "r")
        self.asked = 0

    def buckets(self, case) -> set | None:
        import json

        self.asked += 1
        try:
            self.w.write(json.dumps(case) + "\n")
            self.w.flush()
            line = self.r.readline()
            return set(json.loads(line)) if line.strip() else None
        except (OSError, ValueError):
            return None

    def close(self) -> None:
        import os

        for fh in (self.w, self.r):
            try:
                fh.close()
            except OSError:
                pass
        try:
            os.waitpid(self.pid, 0)
        except OSError:
            pass


MAX_CONFIRMATIONS = 400  # per shard


def _hyp_strategy(ctx):
    from hypothesis import strategies as st

    lo = ctx.scale(6, 9)
    return st.one_of(G.overload_cases(), G.property_cases(), G.decorated_cases(), G.big_sig_cases(lo, ctx.scale(3, 4)))


def strategy(ctx):
    return _hyp_strategy(ctx), "groups"


def _ann_masks(ctx, m: dict, index: int, all_masks_upto: int) -> list[int]:
    from vp.common.harness import derive_seed

    n = S.n_params(m)
    full = (1 << (n + 1)) - 1
    if n <= all_masks_upto:
        return list(range(full + 1))
    # above the bound: none, all, and 6 seeded masks per shape
    out = {0, full}
    k = 0
    while len(out) < 8:
        out.add(derive_seed(ctx.base_seed, index, f"ann{k}") & full)
        k += 1
    return sorted(out)


def run_shard(ctx) -> None:
    pristine = _Pristine()
    order_dependent: list = []
    try:
        _run_shard(ctx, pristine, order_dependent)
        if order_dependent and not ctx.res.failures:
            f, case = order_dependent[0]
            ctx.fail(
                Fail(
                    "history",
                    f"order-dependent:{f.clause}",
                    f"{len(order_dependent)} failures of this shard do not reproduce when the case is checked alone in a fresh process "
                    f"(Griffe's answer depends on what was visited before); first one: {f.message}",
                ),
                case,
            )
    finally:
        pristine.close()


def _run_shard(ctx, pristine, order_dependent) -> None:
    from vp.common.harness import run_check

    confirmed: dict = {}  # bucket -> a case that fails this way when checked alone in a fresh process

    def searched_check(case) -> list[Fail]:
        fails = run_check(check_case, case)
        if not fails:
            return fails
        if pristine.asked < MAX_CONFIRMATIONS:
            alone = pristine.buckets(case)
            if alone is None or any(b.startswith("!error") for b in alone):
                return fails  # confirmation unavailable: keep the failure as found
            kept = [f for f in fails if f.bucket in alone]
            for f in kept:
                confirmed.setdefault(f.bucket, case)
            order_dependent.extend((f, case) for f in fails if f.bucket not in alone)
            return kept
        # confirmation budget used up: count further failures of confirmed buckets against their self-contained case,
        # everything else is treated as possibly order dependent
        for f in fails:
            if f.bucket in confirmed:
                ctx.fail(f, confirmed[f.bucket])
            else:
                order_dependent.append((f, case))
        return []

    S.selfcheck_pools()
    # sampled groups first (bounded by count), then the enumeration (bounded by its size); the wall budget only ends either early
    # (the groups get at most 45% of the shard's wall budget so that a loaded machine cannot starve the enumeration)
    full_budget = ctx.budget_s
    ctx.budget_s = 0.45 * full_budget
    try:
        # in chunks: a run that is out of budget stops drawing instead of generating (and skipping) the remaining examples;
        # the first chunk uses the salt of strategy() so that the shrinker replays it exactly
        total, done, k = ctx.scale(2500, 40000), 0, 0
        strat = _hyp_strategy(ctx)
        while done < total and not ctx.out_of_budget():
            n = min(500, total - done)
            ctx.run_hypothesis(strat, searched_check, n, describe=describe, salt="groups" + (str(k) if k else ""))
            done += n
            k += 1
    finally:
        ctx.budget_s = full_budget
    max_params = ctx.scale(5, 8)
    all_masks_upto = ctx.scale(5, 7)
    shapes = S.all_shapes(max_params)
    if ctx.shard == 0:
        ctx.res.extra["enumerated_shapes"] = len(shapes)
    # large shapes first within a shard would starve small ones on budget exhaustion: keep small-first order
    idx = 0
    # evidence: the enumerated sub-space counts as complete only if no shard is cut inside it (the sampled groups above
    # have their own 45% slice of the budget and do not affect this flag)
    ctx.res.extra["enum_complete"] = False
    for si, shape in enumerate(shapes):
        for ann in _ann_masks(ctx, shape, si, all_masks_upto):
            idx += 1
            if idx % ctx.nshards != ctx.shard:
                continue
            if ctx.out_of_budget():
                return
            m = {"kind": "sig", **shape, "ann": ann}
            fails = searched_check(m)
            text = f"({S.render_params(m)}){S.render_returns(m)}"
            nt = S.nontrivial(m)
            feats = ["sig:" + f for f in S.features(m)]
            renderings = DEF_RENDERINGS + (LAMBDA_RENDERINGS if ann == 0 else QUOTED_RENDERINGS)
            for r in renderings:
                sample = None
                if r == "def" and idx % 1009 == 17 and len(ctx.res.samples) < 2:
                    sample = {"kind": "sig", "def": f"def f{text}: ...", "renderings": list(renderings)}
                ctx.case(1 if nt else None, ["sig:" + r, *(feats if r == "def" else ())], sample, enumerated=True)
            for f in fails:
                ctx.fail(f, m)
    ctx.res.extra["enum_complete"] = True
