"""C16 — Object-tree invariants hold after any history of member mutations.

A history (JSON list of operations, see vp/gen/c16_world.py) is executed step by step against a fresh
`ModulesCollection` and, in parallel, against a reference dictionary model; after every step every clause of the
property is checked on the whole tree.

Clauses (Fail.clause):
  members / deleted-gone     member sets at every level equal the model's (identity of the inserted objects);
                             a deleted path raises KeyError through every key form and both lookup APIs
  parent                     member.parent is its container (top-level: member.modules_collection is the collection)
  collection                 every object reachable from a collection reports that collection as modules_collection (two collections)
  retrievable                collection.get_member(obj.path) is obj for every object and alias in the tree
  lookup-forms               dotted == tuple == chained lookup, get_member and [], from every ancestor
  lookup-through-alias       for every in-tree alias whose (completely resolved) chain ends at a module/class F, every member name of F
                             looked up through the alias path (dotted, tuple, chained; get_member and []; from every ancestor) gives
                             a wrapper alias whose target is the object currently stored in F.members; other names raise KeyError
  aliases-follow-replacement aliases whose target was the object replaced through set_member now target the replacement
  untouched-alias-keeps-target  replacing a member re-targets only the aliases that point at the replaced object (reference model:
                             an alias target changes by its own resolution / assignment or by following a replaced target)
  alias-registered           every resolved alias satisfies target.aliases[alias.path] is alias (for an alias -> alias chain: the
                             registry of the final target, once every link is resolved)
  no-self-target             alias.target = alias / = something at the alias's own path raises CyclicAliasError;
                             no alias ever targets itself
  missing-path               an operation on a path that does not exist raises KeyError and changes nothing
  op-raises                  an operation inside the domain raised (so the member is not where the model has it)
"""

from __future__ import annotations

import time

from vp.common.harness import Fail
from vp.gen import c16_ops, c16_world
from vp.gen.c16_world import K_CLOBBER, K_DEMOTED, K_MERGE, K_STALE, K_TOPLEVEL, run_history

ID = "C16"
LEVEL = "exploration"
RULE = (
    "histories = lists of <=40 operations (set_member/__setitem__/del_member/__delitem__ by name, dotted string, tuple or list, "
    "called on any ancestor incl. the ModulesCollection; values: fresh module/class/function/attribute, alias by path or by object, "
    "or a previously detached subtree (move); alias.resolve_target / .target; alias.target = object | itself | something at its own path) "
    "over names {a..d}, places chosen by selectors into the current model (or literal, possibly missing, paths); "
    "generated as Hypothesis operation lists, by a RuleBasedStateMachine, and exhaustively for sequences <=3 over a finite alphabet. "
    "non-trivial = some executed step replaced or deleted a subtree that an in-tree resolved alias pointed into; "
    "distinct = distinct executed (concretised) operation sequence"
)
ASSUMPTIONS = [
    "the tree is a tree: a value is inserted at one place at a time (fresh object, or a subtree detached earlier by delete/replace)",
    "two ModulesCollections exist; a subtree detached from one may be re-inserted into the other (moving a module between collections is a deletion on one collection and an insertion on another, both through the API the property names)",
    "the registry clause is not asserted for an alias whose target lives in the other collection: `aliases` is keyed by path and paths are unique only within one collection",
    "the key's last part equals the value's name (otherwise obj.path cannot lead back to the object); the collection holds modules only, classes hold no modules, functions/attributes hold nothing",
    "mutation paths go through modules/classes only: setting or deleting *through* an alias or a function is not generated; lookups through alias paths (the read side) are checked after every step",
    "alias registry clause: for an alias whose target is an alias, `target.aliases` is the registry of the chain's final target; it is evaluated when every link is already resolved (links followed by identity, nothing is resolved by the check, rings by path are skipped exactly as Alias.final_target rejects them) and while no later step mutated the tree or re-targeted an alias since the outer alias was attached / re-targeted (Griffe registers an outer alias once, at that moment; see findings/C16.md 5)",
    "frame condition on alias targets (reference model): after a replacement, a resolved in-tree alias that did not point at the replaced object keeps its target; exempt on the pinned tree: aliases still listed in the replaced object's `aliases` although re-targeted elsewhere (set_member re-targets stale entries too: observed, findings/C16.md)",
    "the reference model mirrors one Griffe-specific behaviour: set_member replacing a module by a module with a different file path merges regular+stubs (.pyi); the discarded stubs module is never re-inserted; an alias value that would trigger that merge is not generated",
    "outcomes of alias.resolve_target() are not predicted (C06's subject); AliasResolutionError/CyclicAliasError are its allowed exceptions",
]
EXHAUSTIVE = True
EXHAUSTIVE_NOTE = {
    "quick": "every sequence of length <=3 over the level-0 operation alphabet (names {a,b,c}, 7 places) from the empty collection and from a populated 7-step prelude",
    "thorough": "every sequence of length <=3 over the level-1 operation alphabet (names {a,b,c}, 10 places, all key forms) from the empty collection and from a populated 7-step prelude",
}
BUDGET_S = {"quick": 75.0, "thorough": 1100.0}
SHRINK_MAX_EXAMPLES = 6000

_LAST: dict = {}


def _known_slugs(case) -> frozenset:
    return frozenset(case.get("steer", ()))


def check_case(case) -> list[Fail]:
    """Re-execute a history. case = {"ops": [...], "prelude": name?, "steer": [slugs]?}."""
    ops = list(c16_ops.PRELUDES.get(case.get("prelude", "empty"), [])) + list(case["ops"])
    fails, world = run_history(ops, _known_slugs(case))
    _LAST["world"] = world
    _LAST["case"] = case
    return fails


def _describe_world(world, case):
    key = world.trace if world.nontrivial else None
    classes = set()
    for k, n in world.classes.items():
        classes.add(k if not k.startswith(("set:set_member:", "set:setitem:", "del:del_member:", "del:delitem:")) else k)
    executed = sum(1 for t in world.trace if t and t[0] != "skip")
    classes.add("len:" + ("1-5" if executed <= 5 else "6-15" if executed <= 15 else "16+"))
    if world.nontrivial:
        classes.add("nontrivial")
    npre = len(c16_ops.PRELUDES.get((case or {}).get("prelude", "empty"), []))
    sample = {"prelude": (case or {}).get("prelude", "empty"), "executed": world.trace[npre : npre + 14]} if executed - npre >= 4 else None
    return key, sorted(classes), sample


def _describe(case):
    world = _LAST.get("world")
    if world is None or _LAST.get("case") is not case:
        return None, (), None
    return _describe_world(world, case)


# ----------------------------------------------------------------------------- known findings
def _under(path: str, root: str) -> bool:
    return path.startswith(root + ".")


def _is_stale_key(case, fail: Fail) -> bool:
    """alias-registered fails right after a detached subtree was re-inserted (move), for an alias strictly below the
    moved root (an ancestor of the alias was re-parented), and the alias IS still registered with its target,
    under the path it had when it was registered."""
    d = fail.detail or {}
    return bool(
        fail.clause == "alias-registered"
        and ":limbo" in fail.kind
        and d.get("moved_root")
        and d.get("keys")
        and _under(d.get("alias", ""), d["moved_root"])
    )


def _is_toplevel_parent(case, fail: Fail) -> bool:
    """retrievable fails right after a detached module (which still has its old parent) was inserted into the
    collection, for that module or something below it; its path still starts with the old parent's path."""
    d = fail.detail or {}
    root = d.get("moved_root")
    return bool(
        fail.clause == "retrievable"
        and ":limbo" in fail.kind
        and fail.kind.endswith("@collection")
        and root
        and "." not in root
        and (d.get("at") == root or _under(d.get("at", ""), root))
        and d.get("path", "").endswith("." + d.get("at", "\0"))
    )


def _is_clobbered(case, fail: Fail) -> bool:
    """alias-registered fails: the entry under the alias's own path is a *detached*
    alias (one that was deleted or replaced out of the tree).  Detached aliases keep registering themselves under
    their old path: when set_member re-targets the stale back-references of a replaced object, or when they are
    resolved lazily through an alias that still points at them."""
    d = fail.detail or {}
    if not (fail.clause == "alias-registered" and d.get("occupant_detached")):
        return False
    # Not this finding: the failing step (re-)inserted the very alias that is not registered, without replacing an
    # object (nothing is re-targeted then).  Attaching an alias registers it under its path, over whatever is there.
    op = d.get("op") or ""
    reinserted_self = d.get("moved_root") is not None and d.get("moved_root") == d.get("alias")
    replaced = op.split(">", 1)[1].split("+")[0] if ">" in op else None
    if reinserted_self and (op.startswith("setitem:") or replaced in (None, "alias")):
        return False
    return True


def _is_merge_before_attach(case, fail: Fail) -> bool:
    """alias-registered fails right after set_member replaced a module by a module (regular/stubs merge): the entry
    under the alias's path is a live in-tree alias whose own path is different.  The stubs' resolved aliases are moved
    into the new module before it is attached (its path is still its bare name) and register under that wrong path."""
    d = fail.detail or {}
    return bool(
        fail.clause == "alias-registered" and fail.kind.startswith("set_member:module")
        and d.get("occupant_path") and d["occupant_path"] != d.get("alias")
    )


def _is_demoted_module(case, fail: Fail) -> bool:
    """collection fails and the stale reference is held by a *module that has been a top-level member of a collection*
    and is now nested below another module: inserting it below a parent sets `parent` but leaves its own
    `_modules_collection`, which takes precedence over the parents' (only visible with two collections)."""
    d = fail.detail or {}
    return bool(fail.clause == "collection" and d.get("holder_kind") == "module" and d.get("holder_was_top") and not d.get("holder_is_top"))


KNOWN = {K_MERGE: _is_merge_before_attach, K_DEMOTED: _is_demoted_module, K_STALE: _is_stale_key, K_TOPLEVEL: _is_toplevel_parent, K_CLOBBER: _is_clobbered}


# ----------------------------------------------------------------------------- search
def _steer(ctx) -> list:
    return sorted(s for s in (K_STALE, K_TOPLEVEL, K_CLOBBER, K_DEMOTED, K_MERGE) if s in ctx.known)


def strategy(ctx):
    steer = _steer(ctx)
    n_names = 4
    return c16_ops.history_strategy(ctx.scale(40, 40), n_names).map(lambda c: {**c, "steer": steer}), "hist"


def _run_exhaustive(ctx) -> None:
    level = ctx.scale(0, 1)
    alpha = c16_ops.alphabet(level)
    steer = _steer(ctx)
    known = frozenset(steer)
    if ctx.shard == 0:
        ctx.res.extra["exhaustive_alphabet"] = len(alpha)
    n = 0
    for pname in c16_ops.EXHAUSTIVE_PRELUDES:
        prelude = c16_ops.PRELUDES[pname]
        for seq in c16_ops.sequences(len(alpha), 3):
            n += 1
            if n % ctx.nshards != ctx.shard:
                continue
            if n % 4096 == ctx.shard and time.monotonic() - ctx.t0 > 0.5 * ctx.budget_s:
                ctx.res.budget_exhausted = True  # the enumeration gets at most half of the budget
                return
            world = c16_world.World(known, ctx.excluded)
            ok = not any(world.step(op, check=False) for op in prelude)
            fails = []
            if ok:
                for i, idx in enumerate(seq):
                    last = i == len(seq) - 1
                    fails = world.step(alpha[idx], check=last)
                    if fails:
                        break
            if fails and len(seq) > 1:
                # invariants were only checked after the last step: find the first failing step; a failing proper
                # prefix is a sequence of its own and is reported there
                first, _w = run_history(prelude + [alpha[i] for i in seq[:-1]], known)
                if first:
                    ok = False
            if not ok:
                ctx.case(None, ("exh:prefix-fails",), None, enumerated=True)
                continue
            ctx.case(1 if world.nontrivial else None, ("exh:" + pname + ":len" + str(len(seq)),) + (("exh:nontrivial",) if world.nontrivial else ()), None, enumerated=True)
            case = {"ops": [alpha[i] for i in seq], "prelude": pname, "steer": steer}
            for f in fails:
                ctx.fail(f, case)


def _run_machine(ctx, n_examples: int) -> None:
    import hypothesis
    from hypothesis import HealthCheck, Phase, settings
    from hypothesis.stateful import run_state_machine_as_test

    from vp.common.harness import derive_seed

    steer = _steer(ctx)

    def on_done(prelude, ops, fails, world):
        if not ops:
            return
        key, classes, sample = _describe_world(world, {"prelude": prelude})
        ctx.case(key, ["sm:" + c for c in classes if c.startswith(("len:", "nontrivial", "replace", "set:limbo"))] + ["sm:history"], sample)
        case = {"prelude": prelude, "ops": ops, "steer": steer}
        for f in fails:
            ctx.fail(f, case)

    machine = c16_ops.make_machine(4, frozenset(steer), on_done)
    machine = hypothesis.seed(derive_seed(ctx.base_seed, ctx.shard, "machine"))(machine)
    run_state_machine_as_test(
        machine,
        settings=settings(
            max_examples=n_examples,
            stateful_step_count=ctx.scale(30, 40),
            database=None,
            deadline=None,
            phases=[Phase.generate],
            suppress_health_check=list(HealthCheck),
        ),
    )


def run_shard(ctx) -> None:
    _run_exhaustive(ctx)
    strat, salt = strategy(ctx)

    def counted(case):
        fails = check_case(case)
        for k, n in _LAST["world"].classes.items():
            if k.startswith("skipped:known:"):
                ctx.excluded(k[len("skipped:known:"):], n)
        return fails

    ctx.run_hypothesis(strat, counted, ctx.scale(1200, 40000), describe=_describe, salt=salt)
    if not ctx.out_of_budget():
        _run_machine(ctx, ctx.scale(80, 2000))
