"""C15 — Static loading never executes analysed code; interpreter state (sys.path) is restored.

Two kinds of cases (structural models, vp/gen/c15_pkgs.py):

* static: 1-3 generated packages whose every module body (also stubs, source-less byte code) appends its dotted name to a
  sentinel file; compiled-name decoys (real extension suffixes with garbage contents, valid source-less .pyc files; some named after
  modules that are already imported: json, types, io, logging, sys, os); modules whose `__all__` is built from the `__all__` of a module static analysis may
  not be able to load (compiled decoy, source-less / zipped / not loaded package); sub-modules written in PEP 263 encodings (latin-1,
  cp1252 with a coding cookie and non-ASCII bytes — legal Python, not UTF-8 — and UTF-8 with BOM);
  stubs (.pyi siblings, "<name>-stubs" packages); a site-style .pth file with an `import` line (also one naming
  a setuptools-style `__editable__*_finder.py` with a computed MAPPING and side effects in its assignments); compiled-only
  top-level modules that merely share the name of a standard-library module (this, nntplib, ...); packages that are only
  reachable as alias targets (one of them the private sibling "_<name>" that resolve_external=None loads), possibly only
  importable (source-less .pyc) and invisible to the finder. Loaded with allow_inspection=False, force_inspection=False
  and every other option drawn freely, by name / by path / through sys.path. A sampled sixth of these cases goes through the
  Git entry point instead: the same tree is committed to a scratch repository and loaded with
  `griffe.load_git(pkg, ref="HEAD", repo=..., allow_inspection=False, ...)` (same oracle).
  Oracle: sentinel file empty; no generated top-level name in sys.modules; sys.path is the same list object with the same
  contents; when the sources of the requested package exist the load completes and no compiled decoy is a loaded module;
  when they do not exist (missing, only a .pyc, only a garbage .so) ModuleNotFoundError is raised (docs: "fail with a
  ModuleNotFoundError directly").
* fault: inspection allowed (or forced); one module of the generated packages raises RuntimeError / SystemExit / imports a
  missing dependency at import time (any placement), or the top-level name is missing / only importable / a garbage
  extension file. Operations: griffe.load, or the direct inspection entry point `griffe.inspect(name, filepath=..., parent=...)`
  on one module (the faulting one when possible), with and without explicit import_paths (for inspect only the sys.path
  clause is judged). Optionally one module body tampers with sys.path at import time (rebinds it to a new list, mutates it
  in place, replaces it by a copy), alone or together with the import fault. Both kinds: the loader is either created by
  griffe.load(**options) or built with the *opposite* inspection settings and switched through its public attributes
  `allow_inspection` / `force_inspection` before loading. Oracle: whatever griffe.load returns or raises, sys.path is the same list object with the same
  contents, and only LoadingError / ImportError (incl. ModuleNotFoundError) escape — what `GriffeLoader.load` and
  `dynamic_import` document.
"""

from __future__ import annotations

import atexit
import importlib
import os
import shutil
import sys
import tempfile
from pathlib import Path

from vp.common.harness import Fail, griffe_frames
from vp.gen import c15_pkgs as G
from vp.gen import c20_repo as GR  # git helpers (isolated configuration) for the load_git entry point

ID = "C15"
LEVEL = "fault_enumeration"
RULE = (
    "Hypothesis-generated structural cases: 1-3 side-effect packages (every module body appends its dotted name to a sentinel file; "
    "layouts regular/namespace/single module/source-less .pyc/garbage extension file/zip archive on the search paths; requested by top-level name or dotted object path; compiled decoys; stubs; alias and wildcard imports "
    "into packages only reachable as alias targets) x loader options (submodules, resolve_aliases, resolve_implicit, resolve_external in "
    "{None,True,False}, find_stubs_package, store_source, try_relative_path, by name/path/sys.path; 1/6 of them committed to a scratch git "
    "repository and loaded through griffe.load_git(ref='HEAD', allow_inspection=False)) with inspection excluded, and fault "
    "cases with inspection allowed/forced where one module (any placement) raises RuntimeError/SystemExit/imports a missing dependency or "
    "the top-level name is missing/only importable, optionally a module body that rebinds/mutates/copies sys.path at import time; inspection "
    "settings given as arguments or set as attributes on an existing GriffeLoader; operation griffe.load or griffe.inspect(name, filepath=..) with/without import_paths. non-trivial = static case with >=3 generated modules and alias resolution requested, "
    "or fault case with an injected fault / unfindable top-level; distinct = distinct case model (packages, options, fault)"
)
ASSUMPTIONS = [
    "execution of analysed code is observed through the sentinel file written by every module body, sys.modules and sys.path; execution "
    "that touches none of the three is invisible",
    "'dynamic analysis disallowed' = allow_inspection=False and force_inspection=False (force_inspection=True is an explicit request to import)",
    "default extensions only (load_extensions()); user extensions may of course execute anything",
    "exception family allowed to escape griffe.load under import faults: LoadingError, ImportError (as documented by GriffeLoader.load and dynamic_import)",
    "import-time faults are RuntimeError, SystemExit(3) and `import <missing name>`; asynchronous interrupts are not injected",
]
BUDGET_S = {"quick": 100.0, "thorough": 1100.0}  # ~7 s CPU per shard; the wall budget only matters on an oversubscribed machine
SHRINK_MAX_EXAMPLES = 6000

_BASE: Path | None = None
_OWN_BASE: Path | None = None
_COUNTER = [0]
_LAST: dict = {}


def _workdir() -> Path:
    global _OWN_BASE
    base = _BASE
    if base is None:
        if _OWN_BASE is None:
            root = Path(os.environ.get("VERIF_TMP") or ("/dev/shm" if os.access("/dev/shm", os.W_OK) else "/var/tmp"))
            _OWN_BASE = root / f"verif-C15-own-{os.getpid()}"
            _OWN_BASE.mkdir(parents=True, exist_ok=True)
            atexit.register(shutil.rmtree, str(_OWN_BASE), True)
        base = _OWN_BASE
    _COUNTER[0] += 1
    wd = Path(base) / f"c{_COUNTER[0]}"
    shutil.rmtree(wd, ignore_errors=True)
    wd.mkdir(parents=True)
    return wd


def _purge(names, wd: Path) -> None:
    tops = set(names)
    for k in list(sys.modules):
        if k.split(".", 1)[0] in tops:
            del sys.modules[k]
    prefix = str(wd)
    for k in list(sys.path_importer_cache):
        if k.startswith(prefix):
            del sys.path_importer_cache[k]


def _plan(case, r, roots):
    """-> (objspec, kwargs, extra_sys_path, expect_success)"""
    names = r["names"]
    pkg0 = case["pkgs"][0]
    layout = pkg0["layout"]
    top = names[0]
    root = roots[pkg0.get("root", 0) % 2]
    opts = dict(case["opts"])
    target = case["target"]
    how = case["how"]
    objspec: object = top
    source_layout = layout in ("pkg", "mod", "ns")
    if top in G.STD_NAMES:
        how = "name"  # explicit search paths only: through sys.path the finder would (rightly) find the real stdlib sources
    if target in ("missing", "missing_dotted"):
        objspec = r["missing"] + (".sub.C" if target == "missing_dotted" else "")
        how = "name" if how not in ("name", "syspath") else how
    elif layout != "pkg" and layout != "ns":
        # by-path loading is only generated for package directories: the finder derives a wrong top-level name for a
        # single-file module given by path (ModuleFinder._top_module_name returns the directory name; outside C15)
        how = "name" if how not in ("name", "syspath") else how
        if target == "dotted":
            # a dotted object path below a top-level name (module member; sub-module or its member inside an archive)
            subs = [m["dotted"] for m in r["modules"][0] if m["dotted"] != top]
            pick = case["opts"]["resolve_implicit"]  # any model bit: alternate between the two shapes
            objspec = (subs[-1] + (".f" if pick else "")) if subs else (top + (".f" if pick else ".C"))
    elif target == "dotted" and opts["submodules"]:
        # an object inside the last reachable source module of the package
        cands = [m for m in r["modules"][0] if m.get("reachable", True)]
        if cands:
            objspec = cands[-1]["dotted"] + ".C"
        how = "name" if how not in ("name", "syspath") else how
    if how in ("pathstr", "pathobj", "nosearch", "initfile"):
        p = root / (f"{top}.py" if layout == "mod" else top)
        if how == "initfile" and layout == "pkg":
            p = p / "__init__.py"
        objspec = str(p) if how == "pathstr" else p
        opts["try_relative_path"] = True
    zip_paths = [str(z) for z in r.get("zip_paths", ())]  # archives are search-path entries of their own
    search_paths = None if how in ("syspath", "nosearch") else [str(x) for x in roots] + zip_paths
    extra = ([str(x) for x in roots] + zip_paths) if how == "syspath" else []
    expect_success = source_layout and target not in ("missing", "missing_dotted")
    if case["kind"] == "static" and case.get("via") == "git":
        # the Git entry point: same tree, committed; search paths and Path objspecs are relative to the repository root
        if isinstance(objspec, Path):
            objspec = Path(os.path.relpath(objspec, roots[0].parent))
        elif isinstance(objspec, str) and "/" in objspec:
            objspec = top
        kw = {k: opts[k] for k in ("submodules", "resolve_aliases", "resolve_implicit", "resolve_external", "find_stubs_package")}
        return objspec, {"search_paths": [x.name for x in roots] + [os.path.relpath(z, roots[0].parent) for z in zip_paths], **kw}, [], expect_success
    return objspec, {"search_paths": search_paths, **opts}, extra, expect_success


def _inspect_target(case, r, roots):
    """Module handed to griffe.inspect(): the faulting module when it is an importable source module, else the
    `inspect_at`-th one. -> (leaf name, file path, parent Module chain or None, dotted) or None."""
    import griffe

    cands = []
    for pi, mods in enumerate(r["modules"]):
        root = roots[case["pkgs"][pi].get("root", 0) % 2]
        for m in mods:
            if m["kind"] in ("py", "mod") and m.get("reachable", True) and not m.get("inzip"):
                cands.append((m, root))
    if not cands:
        return None
    chosen = next(((m, root) for m, root in cands if m["dotted"] == r["fault_module"]), None) or cands[case.get("inspect_at", 0) % len(cands)]
    m, root = chosen
    parts = m["dotted"].split(".")
    parent = None
    for part in parts[:-1]:
        parent = griffe.Module(part, parent=parent)
    return parts[-1], root / (m["rel"] + ".py"), parent, m["dotted"]


def _exc_kind(exc: BaseException) -> str:
    frames = griffe_frames(exc.__traceback__)
    return f"{type(exc).__name__}@{frames[-1] if frames else '?'}"


def _from_analysed_code(exc: BaseException, wd: Path) -> bool:
    import traceback

    seen = set()
    e: BaseException | None = exc
    prefix = str(wd)
    while e is not None and id(e) not in seen:
        seen.add(id(e))
        if isinstance(e, SystemExit) or "boom at import" in str(e):
            return True
        if any(fs.filename.startswith(prefix) for fs in traceback.extract_tb(e.__traceback__)):
            return True
        e = e.__cause__ or e.__context__
    return False


def _what_load(op, objspec, kwargs) -> str:
    spec = objspec if isinstance(objspec, str) and "/" not in objspec else type(objspec).__name__ + ":" + Path(str(objspec)).name
    sp = kwargs["search_paths"]
    return (
        f"griffe.{op}({spec!r}, " + ('ref="HEAD", repo=<scratch repo>, ' if op == "load_git" else "")
        + ", ".join(f"{k}={v!r}" for k, v in kwargs.items() if k != "search_paths")
        + f", search_paths={'None' if sp is None else ('[roots]' if op != 'load_git' else sp)})"
    )


def check_case(case) -> list[Fail]:
    import griffe

    fails: list[Fail] = []
    wd = _workdir()
    static = case["kind"] == "static"
    via_git = static and case.get("via") == "git"
    repo = wd / "repo"
    roots = [repo / "r0", repo / "r1"] if via_git else [wd / "r0", wd / "r1"]
    for x in roots:
        x.mkdir(parents=True)
    sentinel = wd / "sentinel.txt"
    sentinel.write_text("")
    r = G.render(case, str(sentinel))
    G.write_tree(r["files"], roots)
    r["zip_paths"] = G.write_zips(r["zips"], roots)
    names = r["names"]
    for pkg, name in zip(case["pkgs"], names):
        if pkg["layout"] == "ns":
            (roots[pkg.get("root", 0) % 2] / name).mkdir(exist_ok=True)
            (roots[pkg.get("root", 0) % 2] / name / ".keep").write_text("")  # git does not track empty directories
    objspec, kwargs, extra, expect_success = _plan(case, r, roots)
    if static:
        kwargs.update(allow_inspection=False, force_inspection=False)
    else:
        kwargs.update(allow_inspection=True, force_inspection=bool(case.get("force")))
    op = "load_git" if via_git else ("load" if static else case.get("op", "load"))
    insp = None
    if op in ("inspect", "inspect_paths"):
        insp = _inspect_target(case, r, roots)
        if insp is None:
            op = "load"
    env_saved = {k: os.environ.get(k) for k in GR.GIT_ENV}
    tempdir_saved = tempfile.tempdir
    if via_git:
        for x in roots:
            (x / ".keep").write_text("")
        GR.git(repo, "init", "-q", "-b", "main")
        GR.git(repo, "add", "-f", "-A")
        GR.git(repo, "commit", "-q", "-m", "tree", env_extra={"GIT_AUTHOR_DATE": "2024-01-01T12:00:00+0000", "GIT_COMMITTER_DATE": "2024-01-01T12:00:00+0000"})
        (wd / "tmp").mkdir()

    generated_tops = set(names) | {r["missing"]}
    path_obj = sys.path
    path_before_extra = list(sys.path)
    sys.path.extend(extra)
    path_snapshot = list(sys.path)
    mods_before = set(sys.modules)
    outcome = "ok"
    result = None
    exc: BaseException | None = None
    try:
        try:
            if op == "load_git":
                os.environ.update(GR.GIT_ENV)
                tempfile.tempdir = str(wd / "tmp")
                result = griffe.load_git(objspec, ref="HEAD", repo=str(repo), **kwargs)
            elif insp is not None:
                leaf, filepath, parent, _dotted = insp
                result = griffe.inspect(leaf, filepath=filepath, parent=parent, import_paths=[str(x) for x in roots] if op == "inspect_paths" else None)
            elif case.get("construct") == "attrs":
                # the loader is built with the opposite inspection settings; the public attributes are set afterwards
                # (then exactly what griffe.load() does: load, resolve_aliases)
                ctor = {"search_paths": kwargs["search_paths"], "store_source": kwargs["store_source"]}
                loader = griffe.GriffeLoader(**ctor) if static else griffe.GriffeLoader(allow_inspection=False, **ctor)
                loader.allow_inspection = kwargs["allow_inspection"]
                loader.force_inspection = kwargs["force_inspection"]
                result = loader.load(objspec, submodules=kwargs["submodules"], try_relative_path=kwargs["try_relative_path"], find_stubs_package=kwargs["find_stubs_package"])
                if kwargs["resolve_aliases"]:
                    loader.resolve_aliases(implicit=kwargs["resolve_implicit"], external=kwargs["resolve_external"])
            else:
                result = griffe.load(objspec, **kwargs)
        except BaseException as e:  # noqa: BLE001  (SystemExit must not kill the check)
            if isinstance(e, KeyboardInterrupt) and not griffe_frames(e.__traceback__):
                raise
            exc = e
            outcome = type(e).__name__
        # ---- observations
        new_path_obj = sys.path
        new_path = list(sys.path)
        executed = sentinel.read_text().split()
        new_mods = sorted(k for k in set(sys.modules) - mods_before if k.split(".", 1)[0] in generated_tops)
    finally:
        # restore the interpreter for the next case whatever Griffe did
        sys.path = path_obj
        path_obj[:] = path_before_extra
        _purge(generated_tops, wd)
        tempfile.tempdir = tempdir_saved
        for k, v in env_saved.items():
            if v is None:
                os.environ.pop(k, None)
            else:
                os.environ[k] = v

    if insp is not None:
        what = f"griffe.inspect({insp[0]!r}, filepath=<{insp[3]}>, parent={'None' if insp[2] is None else insp[2].path!r}, import_paths={'[roots]' if op == 'inspect_paths' else 'None'})"
    else:
        what = _what_load(op, objspec, kwargs)
        if op == "load" and case.get("construct") == "attrs":
            what = f"GriffeLoader({'' if static else 'allow_inspection=False'}); set .allow_inspection/.force_inspection; then like " + what
    if r.get("tamper_module"):
        what += f" [module {r['tamper_module']} does sys.path {case['syspath_mod']['how']} at import time]"


    # ---- clause: sys.path restored (both kinds)
    if new_path_obj is not path_obj:
        fails.append(Fail("sys-path-restored", f"rebound[{outcome if outcome in ('ok',) else 'raised'}]", f"{what}: sys.path is a different list object after the call (outcome {outcome})"))
    elif new_path != path_snapshot:
        fails.append(
            Fail(
                "sys-path-restored",
                f"contents[{'ok' if outcome == 'ok' else 'raised'}]",
                f"{what}: sys.path contents changed (outcome {outcome}): +{[p for p in new_path if p not in path_snapshot][:3]} -{[p for p in path_snapshot if p not in new_path][:3]}",
            )
        )

    LoadingError = griffe.LoadingError
    if static:
        # ---- clause: nothing executed / nothing imported
        if executed:
            fails.append(Fail("no-execution", "module-body-ran", f"{what}: module bodies executed with inspection disallowed: {executed[:5]}"))
        if new_mods:
            fails.append(Fail("module-table", "entered-sys.modules", f"{what}: generated modules entered sys.modules with inspection disallowed: {new_mods[:5]}"))
        if expect_success:
            # "compiled modules are skipped rather than imported": a compiled file inside the package must not make the
            # load fail the way an unloadable module does (LoadingError / ImportError). Other exceptions (defects of alias
            # or wildcard expansion, ...) are not this property's business: they are only counted (class static:outcome:*).
            if isinstance(exc, (LoadingError, ImportError)):
                fails.append(
                    Fail(
                        "compiled-skipped",
                        f"load-raises:{_exc_kind(exc)}",
                        f"{what}: sources of the package exist, yet the static load raised {type(exc).__name__}: {str(exc)[:200]}",
                    )
                )
            elif exc is None:
                coll = result.modules_collection if hasattr(result, "modules_collection") else None
                for d in r["decoys"]:
                    try:
                        loaded = coll is not None and coll.get_member(d["dotted"]) is not None
                    except KeyError:
                        loaded = False
                    except Exception:  # noqa: BLE001
                        loaded = False
                    if loaded:
                        fails.append(Fail("compiled-skipped", "decoy-loaded", f"{what}: compiled decoy {d['rel']} is a loaded module ({d['dotted']}) although inspection is disallowed"))
        else:
            if not isinstance(exc, ModuleNotFoundError):
                fails.append(
                    Fail(
                        "static-not-found",
                        f"outcome:{outcome}",
                        f"{what}: no sources for the requested package (layout {case['pkgs'][0]['layout']}, target {case['target']}) and inspection disallowed: "
                        f"expected ModuleNotFoundError, got {outcome}: {str(exc)[:200]}",
                    )
                )
    else:
        # only exceptions that stem from the import of analysed code are judged (the injected RuntimeError / SystemExit /
        # ModuleNotFoundError or anything raised while a generated file is on the stack); an unrelated crash inside Griffe
        # (e.g. in wildcard expansion) is not this property's business and is only counted
        # (griffe.inspect() documents no exception contract: for it only the sys.path clause is judged)
        if insp is None and exc is not None and not isinstance(exc, (LoadingError, ImportError)) and _from_analysed_code(exc, wd):
            fails.append(
                Fail(
                    "fault-exception-family",
                    f"escapes:{_exc_kind(exc)}",
                    f"{what} with fault {case.get('fault')} in {r['fault_module']}: {type(exc).__name__} escaped ({str(exc)[:200]}); only LoadingError/ImportError are documented",
                )
            )
    _LAST.clear()
    ext_loaded = False
    if result is not None and len(names) > 1:
        try:
            ext_loaded = any(n in result.modules_collection for n in names[1:])
        except Exception:  # noqa: BLE001
            ext_loaded = False
    _LAST.update(fault_hit=bool(r["fault_module"]) and r["fault_module"] in executed, ext_loaded=ext_loaded)
    _LAST.update(op=op, tamper_hit=bool(r.get("tamper_module")) and r["tamper_module"] in executed)
    _LAST.update(outcome=outcome, executed=len(executed), n_modules=sum(len(m) for m in r["modules"]), n_decoys=len(r["decoys"]), fault_module=r["fault_module"])
    shutil.rmtree(wd, ignore_errors=True)
    return fails


# ----------------------------------------------------------------------------- search
def _has(node, pred) -> bool:
    if pred(node):
        return True
    return any(_has(ch, pred) for ch in node.get("ch", ()))


def describe(case):
    info = dict(_LAST)
    kind = case["kind"]
    pkg0 = case["pkgs"][0]
    o = case["opts"]
    classes = [
        f"kind:{kind}",
        f"{kind}:layout:{pkg0['layout']}",
        f"{kind}:how:{case['how']}",
        f"{kind}:target:{case['target']}",
        f"{kind}:npkgs:{len(case['pkgs'])}",
        f"{kind}:outcome:{info.get('outcome')}",
        f"{kind}:entry:{info.get('op')}",
        f"{kind}:construct:{case.get('construct', 'kwargs') if info.get('op') == 'load' else 'n/a'}",
        f"opt:submodules={o['submodules']}",
        f"opt:resolve_aliases={o['resolve_aliases']}",
        f"opt:resolve_implicit={o['resolve_implicit']}",
        f"opt:resolve_external={o['resolve_external']}",
        f"opt:find_stubs_package={o['find_stubs_package']}",
        f"opt:store_source={o['store_source']}",
    ]
    tree_layout = pkg0["layout"] in ("pkg", "ns")
    if tree_layout and _has(pkg0["top"], lambda n: n["t"] == "d"):
        classes.append(f"{kind}:has-decoy")
        if _has(pkg0["top"], lambda n: n["t"] == "d" and G.DECOY_NAMES[n.get("name", 0) % len(G.DECOY_NAMES)]):
            classes.append(f"{kind}:decoy-named-like-imported-module")
    if any(_has(p["top"], lambda n: n.get("all_from")) for p in case["pkgs"]):
        classes.append(f"{kind}:__all__-built-from-another-module's-__all__")
    for enc in ("latin-1", "cp1252", "bom"):
        if tree_layout and any(_has(ch, lambda n, e=enc: n.get("enc") == e) for ch in pkg0["top"].get("ch", ())):
            classes.append(f"{kind}:source-encoding:{enc}")
    if any(p.get("stubs_pkg") for p in case["pkgs"]) or _has(pkg0["top"], lambda n: n.get("stub")):
        classes.append(f"{kind}:has-stubs")
    if len(case["pkgs"]) > 1:
        classes.append(f"{kind}:external:" + "+".join(sorted({p["layout"] for p in case["pkgs"][1:]})))
        if any(p.get("sibling") for p in case["pkgs"][1:]):
            classes.append(f"{kind}:private-sibling")
    if case.get("pth"):
        classes.append(f"{kind}:pth" + (":editable-finder-module" if case["pth"] == "editable" else ""))
    if pkg0["layout"] in ("pyc", "so") and G.STD_NAMES[pkg0.get("stdname", 0) % len(G.STD_NAMES)]:
        classes.append(f"{kind}:compiled-only-top-level-named-like-stdlib-module")
    nmods = info.get("n_modules", 0)
    if kind == "static":
        nontrivial = nmods >= 3 and o["resolve_aliases"]
        if info.get("ext_loaded"):
            classes.append("static:external-package-loaded-statically")
        if len(case["pkgs"]) > 1 and o["resolve_aliases"] and pkg0["layout"] in ("pkg", "mod", "ns") and case["target"] != "missing":
            wants = o["resolve_external"] is True or (o["resolve_external"] is None and any(p.get("sibling") for p in case["pkgs"][1:]))
            if wants and any(p["layout"] in ("pyc", "so") for p in case["pkgs"][1:]):
                classes.append("static:external-only-importable(pyc/so)-and-resolution-may-load-it")
        classes.append("static:modules>=3" if nmods >= 3 else "static:modules<3")
    else:
        f = case.get("fault")
        classes.append(f"fault:type:{f['type'] if f else 'none'}")
        classes.append(f"fault:force={bool(case.get('force'))}")
        classes.append("fault:bodies-ran" if info.get("executed") else "fault:nothing-imported")
        if case.get("syspath_mod"):
            classes.append(f"fault:sys.path-{case['syspath_mod']['how']}:" + ("ran" if info.get("tamper_hit") else "not-reached") + ("+import-fault" if info.get("fault_hit") else ""))
        if f:
            classes.append("fault:hit(faulting body ran)" if info.get("fault_hit") else "fault:not-reached")
        # an injected fault only counts when the faulting module body actually started to run
        nontrivial = bool(info.get("fault_hit")) or bool(info.get("tamper_hit")) or pkg0["layout"] in ("pyc", "so") or case["target"] == "missing"
    sample = None
    if nontrivial:
        sample = {"case": case, "outcome": info.get("outcome"), "fault_module": info.get("fault_module")}
    return (case if nontrivial else None), classes, sample


def strategy(ctx):
    global _BASE
    if _BASE is None:
        _BASE = ctx.tmp  # also used by the runner's shrink worker, whose scratch dir is removed by ctx.cleanup()
    return G.strategy(), "c15"


def run_shard(ctx) -> None:
    global _BASE
    _BASE = ctx.tmp
    strat, salt = strategy(ctx)
    ctx.run_hypothesis(strat, check_case, max_examples=ctx.scale(450, 9000), describe=describe, salt=salt)
