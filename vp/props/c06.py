"""C06 — Alias resolution is total, all-or-nothing and cycle-safe on any import graph.

A case is an import graph (vp/gen/c06_graph.py: 1-3 packages, <=4 modules each, imports of existing / missing /
own / cyclic targets, wildcards, `__all__` splices) plus a history of loader operations on ONE GriffeLoader:

    ["load", pkg]                       loader.load(pkg)            (any order, repeats allowed)
    ["resolve", implicit, external]     loader.resolve_aliases(...) followed immediately by the same call again (fixpoint)
    ["wild", pkg, external]             loader.expand_wildcards(collection[pkg], external=...)
    ["deref"]                           dereference every alias of the tree through its public accessors

Clauses (Fail.clause):
  total            no loader operation raises (RecursionError included)
  deref            every accessor of every alias returns or raises AliasResolutionError / CyclicAliasError, nothing else;
                   a returned final_target is a real (non-alias) object
  all-or-nothing   after a resolution step (and after dereferencing), a resolved alias has no unresolved link on its chain
  fixpoint         resolve_aliases never replaces an already loaded top-level module; an immediate second
                   resolve_aliases(same arguments) returns the same unresolved set and changes
                   neither any alias's (resolved, target_path, chain end) nor the set of aliases / loaded modules
  terminates       an operation that does not finish within the per-call budget is re-run alone in a fresh process with a
                   100x budget; only if that does not finish either is it a failure (otherwise: class inconclusive-timeout)
"""

from __future__ import annotations

import atexit
import json
import os
import shutil
import signal
import subprocess
import sys
import tempfile
from collections import Counter
from contextlib import contextmanager
from pathlib import Path

from hypothesis import strategies as st

from vp.common import bootstrap
from vp.common.bootstrap import HarnessError
from vp.common.harness import Fail, GriffeRaised, call, digest, exc_fail, griffe_frames
from vp.gen import c06_graph

ID = "C06"
LEVEL = "exploration"
RULE = (
    "import graphs: 1-3 packages from {p,q,_p} (regular or single-file), modules {__init__,a,b,s/__init__,s/a}, <=5 statements each from "
    "{def,assign,class(with imports in the body),from-import (absolute/relative level 1-3, optional as-name),wildcard import,import [as],"
    "__all__ = names + spliced __all__ of other modules,__all__ +=}; targets drawn from generated modules, their members, missing modules, "
    "the importing module itself; histories = 1-8 loader operations (load pkg | resolve_aliases(implicit, external in {None,False,True}) x2 | "
    "expand_wildcards | dereference all aliases) on one GriffeLoader, as Hypothesis lists and as a RuleBasedStateMachine; one third of the cases are chains "
    "of 3-4 packages (each imports from the next; pools p/q/r, p/_p/__p, ...) of which only the head is loaded explicitly. "
    "non-trivial = the model graph has a dangling target (missing module / unbound name) or a cycle in the module-level import graph "
    "(self-import included) and at least one package was loaded; distinct = distinct (graph, history)"
)
ASSUMPTIONS = [
    "static loading only (allow_inspection=False), search path = the generated tree only, so external=True can only load generated packages",
    "generated sources are syntactically valid Python; relative imports may point above the top-level package (Griffe clamps them)",
    "aliases are enumerated by walking `members` of non-alias modules/classes from the collection; members of aliases are visited one level deep in the deref step",
    "the all-or-nothing clause is evaluated after resolve_aliases / dereferencing (the statement's 'afterwards'), not between load and the first resolution",
    "a timeout is never a verdict: see clause 'terminates'",
]
BUDGET_S = {"quick": 75.0, "thorough": 1100.0}
SHRINK_MAX_EXAMPLES = 4000

K_WILDCARD = "alias-born-resolved"
K_SINGLEPASS = "wildcard-expansion-single-pass"
K_LEAK = "wildcard-placeholder-leaks"

CALL_BUDGET_S = 1.5  # CPU seconds per loader operation; cases normally take a few milliseconds
CONFIRM_SCALE = 100


class CaseTimeout(BaseException):
    pass


def _on_alarm(signum, frame):  # noqa: ARG001
    raise CaseTimeout


@contextmanager
def time_limit(seconds: float):
    """Abort the enclosed Griffe calls after `seconds` of CPU time of this process (robust against a busy machine; a
    hang in pure Python burns CPU).  The timer repeats: a CaseTimeout raised inside a callback that swallows
    exceptions (e.g. a gc callback) is simply raised again a little later."""
    old = signal.signal(signal.SIGVTALRM, _on_alarm)
    signal.setitimer(signal.ITIMER_VIRTUAL, seconds, 0.25)
    try:
        yield
    finally:
        signal.setitimer(signal.ITIMER_VIRTUAL, 0)
        signal.signal(signal.SIGVTALRM, old)


# ----------------------------------------------------------------------------- scratch space
_TMP: Path | None = None


def _tmp_root() -> Path:
    global _TMP  # noqa: PLW0603
    if _TMP is None or not _TMP.exists():
        base = os.environ.get("VERIF_TMP") or ("/dev/shm" if os.access("/dev/shm", os.W_OK) else None)
        _TMP = Path(tempfile.mkdtemp(prefix=f"verif-C06-{os.getpid()}-", dir=base))
        atexit.register(shutil.rmtree, str(_TMP), True)
    return _TMP


_COUNTER = [0]


# ----------------------------------------------------------------------------- one loader session
ACCESSORS = (
    "target", "final_target", "kind", "has_docstring", "has_docstrings", "is_public", "is_exported",
    "is_wildcard_exposed", "is_imported", "canonical_path", "path", "lineno", "docstring", "members", "is_module",
)


class Session:
    def __init__(self, model, confirm: bool = False):
        import griffe

        self.g = griffe
        self.allowed = (griffe.AliasResolutionError, griffe.CyclicAliasError)
        self.model = model
        self.budget = CALL_BUDGET_S * (CONFIRM_SCALE if confirm else 1)
        self.confirm = confirm
        _COUNTER[0] += 1
        self.root = _tmp_root() / f"case{_COUNTER[0]}"
        for rel, text in c06_graph.render(model).items():
            f = self.root / rel
            f.parent.mkdir(parents=True, exist_ok=True)
            f.write_text(text)
        self.root.mkdir(parents=True, exist_ok=True)
        self.born: dict[int, object] = {}  # aliases created by wildcard expansion (kept alive so ids stay unique)
        born = self.born

        class Recorder(griffe.Extension):
            """Passive: remembers which aliases were created by wildcard expansion."""

            def on_wildcard_expansion(self, *, alias, loader, **kwargs):  # noqa: ARG002
                born[id(alias)] = alias

        self.loader = griffe.GriffeLoader(
            extensions=griffe.load_extensions(Recorder()), search_paths=[str(self.root)], allow_inspection=False, store_source=False
        )
        self.classes: Counter = Counter()
        self.loaded: list[str] = []
        self.timed_out: str | None = None
        self.step_index = -1

    def close(self) -> None:
        shutil.rmtree(self.root, ignore_errors=True)

    # -- tree walking (no dereferencing)
    def aliases(self):
        out = []
        seen = set()
        stack = list(self.loader.modules_collection.members.values())
        while stack:
            obj = stack.pop()
            if id(obj) in seen:
                continue
            seen.add(id(obj))
            for member in obj.members.values():
                if member.is_alias:
                    out.append(member)
                elif member.kind in (self.g.Kind.MODULE, self.g.Kind.CLASS):
                    stack.append(member)
        return out

    def chain_end(self, alias):
        """Follow resolved links only. -> ("object", path) | ("cycle", None) | ("partial", holder, unresolved_link)."""
        seen = set()
        cur = alias
        holder = None
        while cur.is_alias:
            if not cur.resolved:
                return ("partial", holder, cur)
            if id(cur) in seen:
                return ("cycle", None)
            seen.add(id(cur))
            holder = cur
            cur = cur.target
        return ("object", cur.path)

    def snapshot(self):
        snap = {}
        for a in self.aliases():
            end = self.chain_end(a) if a.resolved else ("unresolved",)
            if end[0] == "partial":
                end = ("partial", end[2].path)
            snap[a.path] = (a.resolved, a.target_path, end)
        modules = sorted(self.loader.modules_collection.members)
        return snap, modules

    # -- clauses
    def check_all_or_nothing(self, after: str) -> list[Fail]:
        fails = []
        for a in self.aliases():
            if not a.resolved:
                continue
            end = self.chain_end(a)
            if end[0] != "partial":
                continue
            holder, link = end[1], end[2]
            if id(holder) in self.born:
                origin = "wildcard-expansion"
            elif holder.parent is not None and holder.parent.is_alias:
                origin = "alias-member"  # Alias.members wraps every member of the target in a new, born-resolved alias
            else:
                origin = "import-statement"
            fails.append(
                Fail(
                    "all-or-nothing",
                    "partial:" + origin,
                    f"after {after}: alias {a.path!r} is resolved, but link {link.path!r} -> {link.target_path!r} on its chain is unresolved "
                    f"(held by {holder.path!r}, which comes from: {origin})",
                    {"alias": a.path, "holder": holder.path, "origin": origin, "link": link.path},
                )
            )
            self.classes["obs:partial-chain"] += 1
            break  # one per step is enough; the rest has the same shape
        return fails

    def deref_all(self) -> list[Fail]:
        fails: list[Fail] = []
        g = self.g
        for a in self.aliases():
            fails += self._deref(a, 0)
            if fails:
                break
        for name in list(self.loader.modules_collection.members):
            mod = self.loader.modules_collection.members[name]
            call("deref", lambda m=mod: m.has_docstrings, what=f"{name}.has_docstrings")
        return fails

    def deref_outcomes(self) -> dict:
        out = {}
        for a in self.aliases():
            where = f"{a.parent.path}.{a.name}" if a.parent is not None else a.name
            try:
                value = call("deref", getattr, a, "final_target", what=f"alias {where} .final_target", allowed=self.allowed)
                out[where] = "-> " + str(getattr(value, "path", value))
            except self.allowed as exc:
                out[where] = type(exc).__name__
        return out

    def _deref(self, a, depth: int) -> list[Fail]:
        fails = []
        where = f"{a.parent.path}.{a.name}" if a.parent is not None else a.name
        for acc in ACCESSORS:
            try:
                value = call("deref", getattr, a, acc, what=f"alias {where} .{acc}", allowed=self.allowed)
            except self.allowed as exc:
                self.classes[f"obs:deref-{type(exc).__name__}"] += 1
                continue
            if acc == "final_target":
                self.classes["obs:deref-object"] += 1
                if getattr(value, "is_alias", True):
                    fails.append(Fail("deref", "final-target-is-alias", f"alias {where}: final_target returned {value!r}, not a real object"))
            if acc == "members" and depth < 1:
                for sub in list(value.values())[:6]:
                    fails += self._deref(sub, depth + 1)
        return fails

    # -- steps
    def step(self, step) -> list[Fail]:
        """Run one operation; returns the failures of this step ([] = all clauses hold)."""
        kind = step[0]
        self.step_index += 1
        try:
            with time_limit(self.budget):
                return self._step(kind, step)
        except CaseTimeout:
            self.timed_out = json.dumps(step)
            if self.confirm:
                return [Fail("terminates", f"hang:{kind}", f"{step} did not finish within {self.budget:.0f} s when replayed alone")]
            return []
        except GriffeRaised as gr:
            gr.fail.kind = f"{kind}:{gr.fail.kind}"
            if gr.__cause__ is not None and gr.fail.detail is None:
                gr.fail.detail = {"frames": " < ".join(griffe_frames(gr.__cause__.__traceback__)[-40:])}
            return [gr.fail]
        except (HarnessError, AssertionError):
            raise
        except RecursionError:
            return [Fail("total", f"{kind}:raises:RecursionError", f"{step} raised RecursionError")]
        except Exception as exc:  # noqa: BLE001  (Griffe frames in the traceback -> Fail, else HarnessError)
            f = exc_fail("total", exc, str(step))
            f.kind = f"{kind}:{f.kind}"
            return [f]

    def _step(self, kind, step) -> list[Fail]:
        loader = self.loader
        coll = loader.modules_collection
        if kind == "load":
            name = step[1]
            call("total", loader.load, name, try_relative_path=False, what=f"load({name!r})")
            self.classes["step:load" + (":again" if name in self.loaded else "")] += 1
            self.loaded.append(name)
            return []
        if kind == "wild":
            name, external = step[1], step[2]
            if name not in coll.members:
                self.classes["step:skipped"] += 1
                return []
            call("total", loader.expand_wildcards, coll.members[name], external=external, what=f"expand_wildcards({name!r}, external={external})")
            self.classes["step:wild"] += 1
            return []
        if kind == "resolve":
            implicit, external = step[1], step[2]
            what = f"resolve_aliases(implicit={implicit}, external={external})"
            mods0 = sorted(coll.members)
            objs0 = dict(coll.members)  # identity of the loaded top-level modules
            unresolved1, it1 = call("total", loader.resolve_aliases, implicit=implicit, external=external, what=what)
            objs1 = dict(coll.members)
            self.classes[f"step:resolve:implicit={implicit}:external={external}"] += 1
            fails = self.check_all_or_nothing(what)
            snap1, mods1 = self.snapshot()
            unresolved2, _it2 = call("total", loader.resolve_aliases, implicit=implicit, external=external, what="second " + what)
            snap2, mods2 = self.snapshot()
            # wildcard imports that the first call left in place (placeholder member 'pkg/mod/*' whose target is the
            # source module) and that the second call expanded: the placeholder is gone or has been replaced;
            # or whose source package was only loaded by the second call
            newly = sorted(set(mods2) - set(mods1))
            late = sorted(
                k for k, st1 in snap1.items()
                if k.endswith("/*") and "/*" not in st1[1] and (snap2.get(k) != st1 or st1[1].split(".")[0] in newly)
            )
            detail = {
                "wildcards_expanded_by_second_call": late, "late_sources": {k: snap1[k][1] for k in late}, "newly_loaded": newly,
                "step_index": self.step_index, "first_call": {"unresolved": sorted(unresolved1), "iterations": it1},
                "loaded_by_first_call": sorted(set(mods1) - set(mods0)),
            }
            diff = sorted(k for k in set(snap1) | set(snap2) if snap1.get(k) != snap2.get(k))
            # copies of wildcard placeholders: members named '.../*' whose target is itself a placeholder member
            leaked = [x for x in diff if x.endswith("/*") and any("/*" in s[1] for s in (snap1.get(x), snap2.get(x)) if s)]
            detail["changed"] = diff[:20]
            detail["leaked_placeholders"] = leaked[:20]
            # every difference is a partially resolved chain (state 'partial' after the first call) that got completed, and
            # the chain goes through a born-resolved link (created by wildcard expansion / Alias.members)
            by_path = {a.path: a for a in self.aliases()}

            def _through_born(path) -> bool:
                cur, seen_ids = by_path.get(path), set()
                while cur is not None and cur.is_alias and cur.resolved and id(cur) not in seen_ids:
                    seen_ids.add(id(cur))
                    if id(cur) in self.born or (cur.parent is not None and cur.parent.is_alias):
                        return True
                    cur = cur.target
                return False

            detail["only_partial_completions"] = bool(diff) and all(
                snap1.get(k) and snap2.get(k) and snap1[k][2][0] == "partial" and snap2[k][2][0] != "partial"
                and snap1[k][:2] == snap2[k][:2] and _through_born(k)
                for k in diff
            )
            # nothing appeared or vanished, every difference is an alias going from unresolved to resolved
            detail["only_resolutions"] = bool(diff) and all(
                snap1.get(k) and snap2.get(k) and not snap1[k][0] and snap2[k][0] for k in diff
            )
            suffix = ":late-wildcard-expansion" if late else ":leaked-placeholder" if leaked else ""
            note = (f"; wildcard imports expanded only by the second call: {late}" if late else "") + (
                f"; placeholder copies wrapped again by the second call: {leaked[:3]}" if leaked and not late else ""
            )
            # resolve_aliases loads packages that are missing; it never loads a package that is already in the collection
            # again (that would discard the tree every resolved alias points into): same module objects before / after
            # the first call and after the second one
            objs2 = dict(coll.members)
            reloaded = sorted(n for n, m in objs0.items() if objs1.get(n) is not m) or sorted(n for n, m in objs1.items() if objs2.get(n) is not m)
            if reloaded:
                fails.append(
                    Fail("fixpoint", "loaded-module-replaced",
                         f"{what} replaced the already loaded top-level module(s) {reloaded} by newly loaded ones "
                         f"({'first' if any(objs1.get(n) is not m for n, m in objs0.items()) else 'second'} call)", detail)
                )
            elif unresolved1 != unresolved2:
                fails.append(
                    Fail("fixpoint", "unresolved-set-differs" + suffix,
                         f"{what}: first call left {sorted(unresolved1)}, an immediate second call left {sorted(unresolved2)}" + note, detail)
                )
            elif mods1 != mods2:
                fails.append(Fail("fixpoint", "loads-more-modules" + suffix, f"second {what} loaded {sorted(set(mods2) - set(mods1))}" + note, detail))
            elif snap1 != snap2:
                k = diff[0]
                fails.append(
                    Fail("fixpoint", "alias-state-changes" + suffix,
                         f"second {what} changed {len(diff)} alias(es), e.g. {k}: {snap1.get(k)} -> {snap2.get(k)}" + note, detail)
                )
            if unresolved1:
                self.classes["obs:unresolved-after-resolve"] += 1
            side = len(set(coll.members) - set(self.loaded))
            if side:
                self.classes[f"obs:side-loaded-packages={min(side, 3)}{'+' if side > 3 else ''}"] += 1
            return fails
        if kind == "deref":
            # "resolving again is a no-op": dereferencing re-attempts the resolution of every unresolved alias, so the
            # outcome of dereferencing an alias (the object reached, or the kind of error) must not change when it is
            # simply done again, with no load / expansion in between.
            before = self.deref_outcomes()
            fails = self.deref_all()
            after = self.deref_outcomes()
            changed = sorted(k for k in before if k in after and before[k] != after[k])
            if changed and not fails:
                k = changed[0]
                fails.append(
                    Fail("fixpoint", "deref-outcome-changes",
                         f"dereferencing alias {k} gave {before[k]} the first time and {after[k]} when done again "
                         f"({len(changed)} alias(es) change)", {"changed": changed[:20]})
                )
            self.classes["step:deref"] += 1
            if not fails and self.loaded:
                fails = self.check_all_or_nothing("dereferencing every alias")
            return fails
        raise ValueError(f"unknown step {step!r}")


# ----------------------------------------------------------------------------- check_case
_LAST: dict = {}


def _confirm_hang(case, step_text: str) -> list[Fail]:
    """Replay-alone protocol: fresh process, 100x budget."""
    path = _tmp_root() / f"timeout-{digest(case)}.json"
    path.write_text(json.dumps({"property": ID, "case": case}))
    env = dict(os.environ)
    env["C06_CONFIRM"] = "1"
    env["PYTHONHASHSEED"] = "0"
    try:
        p = subprocess.run(
            [sys.executable, str(bootstrap.VERIF / "vp" / "run.py"), ID, "--replay", str(path)],
            capture_output=True, text=True, env=env, timeout=CALL_BUDGET_S * CONFIRM_SCALE * 6 + 120, check=False,
        )
        hang = p.returncode == 1 and "terminates/" in p.stdout
    except subprocess.TimeoutExpired:
        hang = True
    finally:
        path.unlink(missing_ok=True)
    if hang:
        return [Fail("terminates", "hang", f"step {step_text} did not finish within {CALL_BUDGET_S} s of CPU time, nor within {CONFIRM_SCALE}x that when replayed alone in a fresh process")]
    return []


_CONFIRMED = [0]


def _after_timeout(session, case) -> list[Fail]:
    """A step was aborted by the timer: never a verdict by itself.  The first such case of a process goes through the
    replay-alone protocol (it costs up to CONFIRM_SCALE x the budget); later ones are only counted."""
    if _CONFIRMED[0] >= 1:
        session.classes["inconclusive-timeout:unconfirmed"] += 1
        return []
    _CONFIRMED[0] += 1
    fails = _confirm_hang(case, session.timed_out)
    session.classes["inconclusive-timeout" if not fails else "timeout:confirmed-hang"] += 1
    return fails


def check_case(case) -> list[Fail]:
    confirm = os.environ.get("C06_CONFIRM") == "1"
    session = Session(case, confirm=confirm)
    fails: list[Fail] = []
    try:
        for step in case["steps"]:
            fails = session.step(step)
            if fails or session.timed_out:
                break
    finally:
        session.close()
    if session.timed_out and not confirm:
        fails = _after_timeout(session, case)
    if case.get("steered"):
        # generated with wildcard imports only from import-free modules: nothing wildcard-related may be attributed
        # to a known finding here (the KNOWN predicates match the exact kind)
        for f in fails:
            if f.clause == "fixpoint" or f.kind == "partial:wildcard-expansion":
                f.kind += ":in-steered-case"
    _LAST["session"] = session
    _LAST["case"] = case
    return fails


def _describe_session(session, case):
    nontrivial, classes = c06_graph.analyse(case)
    classes = {"graph:" + c for c in classes}
    if case.get("steered"):
        classes.add("graph:steered(wildcards-only-from-import-free-modules)")
    classes |= set(session.classes)
    loaded = bool(session.loaded)
    key = case if (nontrivial and loaded) else None
    if key is not None:
        classes.add("nontrivial")
    sample = None
    if nontrivial and loaded and len(case["steps"]) >= 2:
        sample = {"files": c06_graph.render(case), "steps": case["steps"]}
    return key, sorted(classes), sample


def _describe(case):
    session = _LAST.get("session")
    if session is None or _LAST.get("case") is not case:
        return None, (), None
    return _describe_session(session, case)


# ----------------------------------------------------------------------------- known findings
def _is_wildcard_born(case, fail: Fail) -> bool:
    """all-or-nothing fails and the resolved link that points at the unresolved alias was created by wildcard
    expansion (its name is not bound by an import statement of its module in the model): expanded aliases are
    constructed with the source member as target, i.e. born resolved, whatever the state of that member."""
    d = fail.detail or {}
    if fail.clause == "fixpoint" and fail.kind == "alias-state-changes" and d.get("only_partial_completions"):
        # consequence of the same finding: the partially resolved chains left by the first call (reported by the
        # all-or-nothing clause in the same step) are completed lazily by the second call; nothing else changed
        return True
    return fail.clause == "all-or-nothing" and d.get("origin") in ("wildcard-expansion", "alias-member") and fail.kind == "partial:" + d["origin"]


def _second_expansion_pass_explains(case, d) -> bool:
    """Variant of the single-pass finding without any placeholder changing: the first call loaded a package (in its
    expansion pass or while resolving); that package's modules are only walked by the *next* call's expansion pass,
    which — with the caller's `external` setting and the packages now present — dereferences aliases in it.
    Recognised iff, in a fresh loader, after the same first call the expansion pass alone (expand_wildcards over the
    collection, no resolution) already changes an alias that the failure reports as changed and that lives in a
    package the first call loaded."""
    idx = d.get("step_index")
    steps = case["steps"]
    changed = d.get("changed") or []
    loaded = set(d.get("loaded_by_first_call") or ())
    candidates = [k for k in changed if k.split(".")[0] in loaded]
    if not loaded and d.get("only_resolutions"):
        # second variant: same unresolved set, same aliases; the next call's expansion pass merely dereferences (and so
        # resolves) aliases that the resolution loop had skipped (implicit=False) or could not reach before
        candidates = list(changed)
    if idx is None or idx >= len(steps) or steps[idx][0] != "resolve" or not candidates:
        return False
    session = Session(case)
    try:
        for step in steps[:idx]:
            if session.step(step):
                return False
        implicit, external = steps[idx][1], steps[idx][2]
        with time_limit(CALL_BUDGET_S * 20):
            session.loader.resolve_aliases(implicit=implicit, external=external)
            before, _ = session.snapshot()
            for module in list(session.loader.modules_collection.members.values()):
                session.loader.expand_wildcards(module, external=external)
            after, _ = session.snapshot()
        if not loaded:
            return all(before.get(k) != after.get(k) for k in candidates)
        return any(before.get(k) != after.get(k) for k in candidates)
    except (Exception, CaseTimeout):  # noqa: BLE001
        return False
    finally:
        session.close()


def _is_late_expansion(case, fail: Fail) -> bool:
    """fixpoint fails and the second resolve_aliases call expanded a wildcard import that the first call had left in
    place (wildcard expansion is one pass at the start of resolve_aliases, not part of the iteration: a source that is
    only provided or changed by another expansion, or whose package / whose importing package is only loaded during
    the first call, is picked up by the next call).
    NOT attributed: a wildcard whose source path named, when the first call started, an unresolved alias that could be
    resolved to a module right then (`from pkg import impl as api` + `from pkg.api import *`): the pinned tree expands
    that in the first call.  This is decided by re-running the history in a fresh loader up to the failing step and
    looking the source of every late wildcard up there."""
    d = fail.detail or {}
    sources = d.get("late_sources") or {}
    if fail.clause == "fixpoint" and fail.kind in ("alias-state-changes", "unresolved-set-differs") and (
        d.get("loaded_by_first_call") or (fail.kind == "alias-state-changes" and d.get("only_resolutions"))
    ):
        return _second_expansion_pass_explains(case, d)
    if not (fail.clause == "fixpoint" and fail.kind.endswith(":late-wildcard-expansion") and sources):
        return False
    idx = d.get("step_index")
    steps = case["steps"]
    if idx is None or idx >= len(steps):
        return False
    session = Session(case)
    try:
        for step in steps[:idx]:
            if session.step(step):
                return False
        collection = session.loader.modules_collection
        for placeholder, source in sources.items():
            if placeholder.split(".")[0] not in collection.members:
                continue  # the importing package itself was only loaded during the first call
            try:
                with time_limit(CALL_BUDGET_S):
                    found = collection.get_member(source)
                    if not (found.is_alias and not found.resolved):
                        continue
                    final = found.final_target  # an alias to a module whose package is not loaded yet raises here
            except (KeyError, *session.allowed):
                continue
            except (Exception, CaseTimeout):  # noqa: BLE001
                return False
            if final.is_module:
                return False  # the source is a module alias that could be resolved when the first call started
        return True
    finally:
        session.close()


def _is_placeholder_leak(case, fail: Fail) -> bool:
    """fixpoint fails and among the aliases whose state changed there is a copy of
    a wildcard placeholder: a member named '.../*' whose target path is itself a placeholder member ('pkg.mod.x/y/*')."""
    d = fail.detail or {}
    return fail.clause == "fixpoint" and fail.kind.endswith(":leaked-placeholder") and bool(d.get("leaked_placeholders"))


def _is_set_rule_stop(case, fail: Fail) -> bool:
    """fixpoint fails although the first resolve_aliases call stopped exactly where the documented rule stops
    (an iteration that leaves the same *set* of unresolved aliases as the previous one): the same history is re-run
    in a fresh loader with the failing call replaced by its passes run one at a time (expand_wildcards once, then
    resolve_module_aliases over the collection per pass) until two consecutive passes return the same set; the finding is recognised iff the real call did that number of iterations and
    returned that set.  Then the cause is the rule itself: an iteration can make progress without changing the set
    (it side-loaded a package; aliases of modules visited earlier in that iteration, or of the new package, are
    not retried).  A call that stops earlier or later than the rule (e.g. comparing counts) is not attributed."""
    d = fail.detail or {}
    first = d.get("first_call")
    if fail.clause != "fixpoint" or not first or "late-wildcard" in fail.kind or "leaked" in fail.kind or "deref" in fail.kind:
        return False
    if not fail.kind.startswith(("unresolved-set-differs", "alias-state-changes", "loads-more-modules")):
        return False
    idx = d.get("step_index")
    steps = case["steps"]
    if idx is None or idx >= len(steps) or steps[idx][0] != "resolve":
        return False
    session = Session(case)
    try:
        for step in steps[:idx]:
            if session.step(step) and step[0] != "resolve":
                return False
        implicit, external = steps[idx][1], steps[idx][2]
        sets = []
        loader = session.loader
        collection = loader.modules_collection.members
        with time_limit(CALL_BUDGET_S * 20):
            # the passes of resolve_aliases, one at a time, through the public building blocks it is made of
            for module in list(collection.values()):
                loader.expand_wildcards(module, external=external)
            load_failures: set = set()
            while len(sets) < 25:
                u: set = set()
                for name in list(collection.keys()):
                    _r, nu = loader.resolve_module_aliases(collection[name], implicit=implicit, external=external, load_failures=load_failures)
                    u |= nu
                sets.append(u)
                if not u or (len(sets) > 1 and sets[-1] == sets[-2]):
                    break
    except (Exception, CaseTimeout):  # noqa: BLE001
        return False
    finally:
        session.close()
    return len(sets) == first["iterations"] and sorted(sets[-1]) == first["unresolved"]


K_SETRULE = "resolve-aliases-stops-after-side-load"
K_SIDELOAD_ITER = "resolve-side-load-mutates-members"


def _is_side_load_mutation(case, fail: Fail) -> bool:
    """resolve_aliases raises RuntimeError (dictionary changed size during iteration) from resolve_module_aliases:
    side-loading a package while iterating `obj.members`; the new package's own wildcard expansion adds members to obj."""
    return fail.clause == "total" and fail.kind == "resolve:raises:RuntimeError@_griffe/loader.py:resolve_module_aliases"


K_NSDIR = "init-less-subdirectory-behind-alias"


def _is_initless_dir(case, fail: Fail) -> bool:
    """load() raises an alias error and the graph has a package with p/s/a.py but no p/s/__init__.py whose __init__
    binds the name `s` by an import: _get_or_create_parent_module finds the alias `p.s` as the parent of `p.s.a` and
    reads `is_namespace_package` on it, which dereferences the (dangling or cyclic) alias."""
    return (
        fail.clause == "total"
        and (":raises:AliasResolutionError@" in fail.kind or ":raises:CyclicAliasError@" in fail.kind)
        and c06_graph.initless_dir_behind_import(case)
        and "_get_or_create_parent_module" in ((fail.detail or {}).get("frames") or "")
    )


KNOWN = {K_NSDIR: _is_initless_dir, K_SETRULE: _is_set_rule_stop, K_SIDELOAD_ITER: _is_side_load_mutation, K_WILDCARD: _is_wildcard_born, K_SINGLEPASS: _is_late_expansion, K_LEAK: _is_placeholder_leak}
STEERING = (K_WILDCARD, K_SINGLEPASS, K_LEAK)


# ----------------------------------------------------------------------------- strategies
EXTERNALS = (None, False, True)


def _steps(pkg_names):
    pk = st.sampled_from(pkg_names)
    load = st.tuples(st.just("load"), pk)
    resolve = st.tuples(st.just("resolve"), st.booleans(), st.sampled_from(EXTERNALS))
    wild = st.tuples(st.just("wild"), pk, st.sampled_from(EXTERNALS))
    deref = st.tuples(st.just("deref"))
    free = st.lists(st.one_of(load, load, resolve, resolve, wild, deref), min_size=1, max_size=8)
    canonical = st.tuples(st.permutations(pkg_names), st.lists(resolve, min_size=1, max_size=2)).map(
        lambda t: [("load", n) for n in t[0]] + list(t[1]) + [("deref",)]
    )
    partial = st.tuples(st.permutations(pkg_names), st.integers(1, 3), st.lists(st.one_of(resolve, load, deref), min_size=1, max_size=4)).map(
        lambda t: [("load", n) for n in t[0][: t[1]]] + list(t[2]) + [("deref",)]
    )
    return st.one_of(canonical, canonical, partial, free).map(lambda steps: [list(s) for s in steps])


def case_strategy(steered: bool):
    def with_steps(model):
        names = [p["name"] for p in model["pkgs"]]
        return _steps(names).map(lambda steps: {"pkgs": model["pkgs"], "steps": steps, **({"steered": True} if steered else {})})

    return c06_graph.graphs(steered=steered).flatmap(with_steps)


def chain_case_strategy(steered: bool):
    """Only the head of a chain of packages is loaded explicitly; the others can only enter the collection by
    side-loading during resolve_aliases (external=True, or external=None through the private-sibling rule)."""
    resolve = st.tuples(st.just("resolve"), st.sampled_from((True, True, False)), st.sampled_from((True, True, None, None, False)))
    tail = st.lists(st.one_of(resolve, st.tuples(st.just("deref"))), min_size=0, max_size=2)

    def with_steps(model):
        chain = model["chain"]
        heads = st.sampled_from(([chain[0]], [chain[0]], [chain[0]], chain[:2], [chain[1]]))
        return st.tuples(heads, resolve, tail).map(
            lambda t: {
                "pkgs": model["pkgs"],
                "chain": chain,
                "steps": [["load", n] for n in t[0]] + [list(t[1])] + [list(x) for x in t[2]] + [["deref"]],
                **({"steered": True} if steered else {}),
            }
        )

    return c06_graph.chain_graphs(steered=steered).flatmap(with_steps)


def strategy(ctx):
    # While the wildcard finding is listed, half of the cases are generated with wildcard imports only from modules
    # that contain no imports (no born-resolved alias can point at an unresolved one: the all-or-nothing clause is then
    # checked without any attribution); the other half keeps cyclic / chained wildcards for the remaining clauses.
    if any(k in ctx.known for k in STEERING):
        return st.one_of(case_strategy(True), case_strategy(False), case_strategy(True), case_strategy(False), chain_case_strategy(True), chain_case_strategy(False)), "graphs"
    return st.one_of(case_strategy(False), case_strategy(False), chain_case_strategy(False)), "graphs"


# ----------------------------------------------------------------------------- state machine
def _run_machine(ctx, n_examples: int) -> None:
    import hypothesis
    from hypothesis import HealthCheck, Phase, settings
    from hypothesis.stateful import RuleBasedStateMachine, initialize, precondition, rule, run_state_machine_as_test

    from vp.common.harness import derive_seed

    steered = any(k in ctx.known for k in STEERING)

    class LoaderHistory(RuleBasedStateMachine):
        def __init__(self):
            super().__init__()
            self.session = None
            self.model = None
            self.steps = []
            self.fails = []

        @initialize(model=st.one_of(c06_graph.graphs(steered=steered), c06_graph.graphs(steered=False), c06_graph.chain_graphs(steered=False)))
        def start(self, model):
            self.model = model
            self.session = Session(model)
            self.names = [p["name"] for p in model["pkgs"]]

        def _do(self, step):
            if self.fails or self.session.timed_out:
                return
            self.steps.append(step)
            self.fails = self.session.step(step)

        @rule(i=st.integers(0, 2))
        def load(self, i):
            self._do(["load", self.names[i % len(self.names)]])

        @precondition(lambda self: bool(self.session and self.session.loaded))
        @rule(implicit=st.booleans(), external=st.sampled_from(EXTERNALS))
        def resolve(self, implicit, external):
            self._do(["resolve", implicit, external])

        @precondition(lambda self: bool(self.session and self.session.loaded))
        @rule(i=st.integers(0, 2), external=st.sampled_from(EXTERNALS))
        def expand_wildcards(self, i, external):
            self._do(["wild", self.session.loaded[i % len(self.session.loaded)], external])

        @precondition(lambda self: bool(self.session and self.session.loaded))
        @rule()
        def dereference(self):
            self._do(["deref"])

        def teardown(self):
            if self.session is None:
                return
            self.session.close()
            case = {"pkgs": self.model["pkgs"], "steps": self.steps}
            fails = self.fails
            if self.session.timed_out:
                fails = _after_timeout(self.session, case)
            if not self.steps:
                return
            key, classes, sample = _describe_session(self.session, case)
            ctx.case(key, ["sm:history"] + [c for c in classes if c.startswith(("step:", "nontrivial", "inconclusive"))], sample)
            for f in fails:
                ctx.fail(f, case)

    machine = hypothesis.seed(derive_seed(ctx.base_seed, ctx.shard, "machine"))(LoaderHistory)
    run_state_machine_as_test(
        machine,
        settings=settings(
            max_examples=n_examples,
            stateful_step_count=ctx.scale(10, 14),
            database=None,
            deadline=None,
            phases=[Phase.generate],
            suppress_health_check=list(HealthCheck),
        ),
    )


def run_shard(ctx) -> None:
    global _TMP  # noqa: PLW0603
    _TMP = ctx.tmp
    strat, salt = strategy(ctx)

    def counted(case):
        if case.get("steered"):
            for slug in STEERING:
                if slug in ctx.known:
                    ctx.excluded(slug)
        return check_case(case)

    ctx.run_hypothesis(strat, counted, ctx.scale(1000, 30000), describe=_describe, salt=salt)
    if not ctx.out_of_budget():
        _run_machine(ctx, ctx.scale(60, 1500))
