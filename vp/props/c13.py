"""C13 — Well-formed docstrings parse back to the structure that was written.

Domain: section structures (vp/gen/c13_struct.py) rendered in the syntax that docs/reference/docstrings.md documents for
Google and Numpy style (Sphinx: the field-list syntax of the tutorial the docs point to), under every documented parser
option, with a parent object (function, __init__, class, module, property, none) built by griffe.visit from a generated
snippet that carries the annotations/defaults the docstring omits.

Oracle: the normalised `[section.as_dict() ...]` of `Docstring(text, parent=p).parse(style, **opts)` equals the generating
structure: section kinds (in written order for Google and Numpy, grouped for Sphinx), titles, item names,
str(annotation), defaults (`value`), descriptions (leading/trailing white space aside), example blocks; omitted
annotations/defaults are the parent's; every unique token appears only where it was written.
"""

from __future__ import annotations

import re

from vp.common.bootstrap import HarnessError
from vp.common.harness import Fail, call
from vp.gen import c13_struct as S

ID = "C13"
LEVEL = "exploration"
RULE = (
    "byte-decoded section structures (text, admonitions, examples, parameters, other parameters, attributes, returns, yields, receives, raises, "
    "warns, functions, classes, modules; 1-4 items; 1-4 line descriptions with blank lines, extra indentation, colons; unique token per line) "
    "rendered per style in the documented syntax, options drawn per case (documented defaults 1/4, random mask 3/4), parent object generated "
    "from the structure. non-trivial = >=3 sections, or two adjacent non-text sections, or an item description containing a blank line; "
    "distinct = distinct (style, options, parent, structure)"
)
ASSUMPTIONS = [
    "well-formed = what docs/reference/docstrings.md documents: Google sections separated by a blank line, contents indented once (2 or 4 spaces), "
    "continuation lines indented twice (not indented further when *_multiple_items=False, which implies a single item), optional `: title`; Numpy "
    "header + dash line of the header's length, item lines un-indented, descriptions indented by 4; items are `name`, `name : type`, `name :`, "
    "`: type`, `:` as documented; Sphinx: text first, then `:param|:var|:returns|:raises` fields with optional `:type|:vartype|:rtype` or an in-line `:param type name:` (the "
    "docs only link to the Sphinx tutorial), descriptions compared after folding white space",
    "free text after a section is generated for Google only (Numpy/Sphinx have no documented way to end a section other than a new header/field)",
    "a docstring line is what lies between two newline characters: description, text and admonition lines may contain \\x0b \\x0c \\x1c-\\x1e "
    "\\x85 \\u2028 \\u2029 or \\r in their middle (1 line in 8); they must come back unchanged",
    "descriptions: the first physical line never contains a colon (it would be ambiguous with `name: description` in Returns-like sections); "
    "later lines may; no line is blank at the start or end of a description",
    "each section kind other than text/examples/admonition occurs at most once per docstring; item names are unique per docstring",
    "property parents: Returns and Yields items take omitted types from the getter's return annotation (Receives is not generated for "
    "properties); a property docstring has either a `type: summary` first line or a Returns section, not both",
    "types/defaults come from pools whose str() through Griffe's expression builder is the source text (verified once per process)",
    "an empty text section on the parsed side is ignored; admonition titles are only asserted when a custom title was written (Google)",
    "Sphinx attribute annotations are not asserted when `:vartype` is omitted (docs: fetching from the parent is unsupported)",
    "ignore_init_summary: expected to drop the one-line summary and the blank line after it (the generator always writes that shape for __init__)",
    "Numpy `deprecated` sections and numpydoc extras (`, optional`, `default`, choices) are not in Griffe's docs and are not generated",
]
BUDGET_S = {"quick": 45.0, "thorough": 780.0}
SHRINK_MAX_EXAMPLES = 3000

_TOKEN = re.compile(r"q\d+z")
_pool_checked = False


def _check_pools() -> None:
    """The type/default pools must print back verbatim, otherwise the oracle (not Griffe's docstring code) would be wrong."""
    global _pool_checked
    if _pool_checked:
        return
    import griffe

    n = max(len(S.TYPES), len(S.DEFAULTS))
    params = ", ".join(f"p{i}: {S.TYPES[i % len(S.TYPES)]} = {S.DEFAULTS[i % len(S.DEFAULTS)]}" for i in range(n))
    mod = griffe.visit("pools", filepath=None, code=f"def f({params}): ...\n")
    for i in range(n):
        p = mod["f"].parameters[f"p{i}"]
        if str(p.annotation) != S.TYPES[i % len(S.TYPES)] or str(p.default) != S.DEFAULTS[i % len(S.DEFAULTS)]:
            raise HarnessError(f"C13 pool entry does not print back verbatim: {p.annotation!s} / {p.default!s}")
    _pool_checked = True


def build_parent(case):
    import griffe
    from pathlib import Path

    ps = S.parent_source(case)
    if ps is None:
        return None
    source, path = ps
    mc = griffe.ModulesCollection()
    mod = griffe.visit("m", filepath=Path("/nonexistent-c13/m.py"), code=source, modules_collection=mc)
    mc.set_member("m", mod)
    return mod[path] if path else mod


def _s(v):
    return None if v is None else str(v)


def normalise(sections) -> list[dict]:
    out = []
    for sec in sections:
        kind = sec.kind.value
        title = sec.title or None
        v = sec.value
        if kind == "text":
            if not v.strip():
                continue
            out.append({"kind": kind, "title": title, "value": v.strip()})
        elif kind == "examples":
            out.append({"kind": kind, "title": title, "value": [[k.value, t] for k, t in v]})
        elif kind in ("admonition", "deprecated"):
            out.append({"kind": kind, "title": title, "value": {"annotation": _s(v.annotation), "description": v.description.strip()}})
        else:
            items = []
            for el in v:
                d = {"description": el.description.strip(), "annotation": _s(el.annotation)}
                if hasattr(el, "name"):
                    d["name"] = el.name
                if kind in ("parameters", "other parameters"):
                    d["value"] = _s(el.value)
                items.append(d)
            out.append({"kind": kind, "title": title, "value": items})
    return out


def _token_homes(exp: list[dict]) -> dict:
    homes = {}
    for i, sec in enumerate(exp):
        v = sec["value"]
        if isinstance(v, str):
            strings = [((i, "text"), v)]
        elif isinstance(v, dict):
            strings = [((i, "description"), v["description"])]
        elif sec["kind"] == "examples":
            strings = [((i, j), b[1]) for j, b in enumerate(v)]
        else:
            strings = [((i, j, "description"), it["description"]) for j, it in enumerate(v)]
        for loc, text in strings:
            for t in _TOKEN.findall(text):
                homes[t] = loc
    return homes


def _all_strings(got: list[dict]):
    for i, sec in enumerate(got):
        if sec["title"]:
            yield (i, "title"), sec["title"]
        v = sec["value"]
        if isinstance(v, str):
            yield (i, "text"), v
        elif isinstance(v, dict):
            yield (i, "annotation"), v["annotation"] or ""
            yield (i, "description"), v["description"]
        elif sec["kind"] == "examples":
            for j, b in enumerate(v):
                yield (i, j), b[1]
        else:
            for j, it in enumerate(v):
                for f in ("name", "annotation", "description", "value"):
                    if it.get(f):
                        yield (i, j, f), it[f]


def compare(case, exp: list[dict], got: list[dict], text: str) -> list[Fail]:
    style = case["style"]
    fails: list[Fail] = []
    ctx_msg = f"style={style} opts={ {k: v for k, v in case['opts'].items()} } parent={case['parent']} docstring={text!r}"
    ek, gk = [s["kind"] for s in exp], [s["kind"] for s in got]
    if style == "sphinx":
        order = {"text": 0, "parameters": 1, "attributes": 2, "returns": 3, "raises": 4}
        got = sorted(got, key=lambda s: order.get(s["kind"], 9))
        gk = [s["kind"] for s in got]
    if ek != gk:
        k = 0
        while k < min(len(ek), len(gk)) and ek[k] == gk[k]:
            k += 1
        e1 = ek[k] if k < len(ek) else "end"
        g1 = gk[k] if k < len(gk) else "end"
        fails.append(Fail("sections", f"{style}:{e1}->{g1}", f"written sections {ek}, parsed {gk}; {ctx_msg}", {"index": k}))
        return fails
    for i, (e, g) in enumerate(zip(exp, got)):
        kind = e["kind"]
        if e["title"] != "*" and e["title"] != g["title"]:
            fails.append(Fail("title", f"{style}:{kind}", f"section {i} ({kind}): title written {e['title']!r}, parsed {g['title']!r}; {ctx_msg}"))
        ev, gv = e["value"], g["value"]
        if kind == "text":
            if ev != gv:
                fails.append(Fail("text", f"{style}:text", f"section {i}: text written {ev!r}, parsed {gv!r}; {ctx_msg}"))
        elif kind == "admonition":
            for f in ("annotation", "description"):
                if ev[f] != gv[f]:
                    fails.append(Fail("admonition", f"{style}:{f}", f"section {i}: admonition {f} written {ev[f]!r}, parsed {gv[f]!r}; {ctx_msg}"))
        elif kind == "examples":
            if ev != gv:
                fails.append(Fail("examples", f"{style}:blocks", f"section {i}: example blocks written {ev!r}, parsed {gv!r}; {ctx_msg}"))
        else:
            if len(ev) != len(gv):
                fails.append(Fail("items", f"{style}:{kind}:count", f"section {i} ({kind}): {len(ev)} items written, {len(gv)} parsed ({[it.get('name', it['annotation']) for it in gv]}); {ctx_msg}"))
                continue
            if style == "sphinx" and kind in ("parameters", "attributes"):
                ev = sorted(ev, key=lambda it: it["name"])
                gv = sorted(gv, key=lambda it: it["name"])
            for j, (ei, gi) in enumerate(zip(ev, gv)):
                for f in ("name", "annotation", "description", "value"):
                    if f not in ei or ei[f] == "*":
                        continue
                    if ei[f] != gi.get(f):
                        fails.append(Fail("items", f"{style}:{kind}:{f}", f"section {i} ({kind}) item {j}: {f} expected {ei[f]!r}, parsed {gi.get(f)!r}; {ctx_msg}", {"section": i, "item": j, "field": f}))
    # leakage: every unique token only where it was written
    homes = _token_homes(exp)
    for loc, s in _all_strings(got):
        for t in _TOKEN.findall(s):
            if homes.get(t) != loc:
                src_kind = exp[homes[t][0]]["kind"] if t in homes else "?"
                dst_kind = got[loc[0]]["kind"]
                fails.append(Fail("no-leak", f"{style}:{src_kind}->{dst_kind}", f"token {t} written at {homes.get(t)} appears at {loc} ({s!r}); {ctx_msg}"))
                break
    return fails


_LAST: dict = {}


def check_case(case) -> list[Fail]:
    import griffe

    _LAST.clear()
    _check_pools()
    text = S.render(case)
    exp = S.expected(case)
    parent = call("total", build_parent, case, what="griffe.visit(parent snippet)")
    nlines = text.count("\n") + 1
    doc = griffe.Docstring(text, lineno=1, endlineno=nlines, parent=parent)
    sections = call("total", doc.parse, case["style"], **case["opts"], what=f"Docstring({text!r}).parse({case['style']!r}, **{case['opts']})")
    got = normalise(sections)
    _LAST.update(kinds=[s["kind"] for s in exp])
    return compare(case, exp, got, text)


# ----------------------------------------------------------------------------------------------- known findings
def _known_numpy_bare_name(case, fail: Fail) -> bool:
    """Numpy Returns/Yields/Receives item written as a bare `name` line (docs: 'specifying just the name: `name` or `name :`')
    comes back as an unnamed item whose *annotation* is that name."""
    if case["style"] != "numpy" or fail.clause != "items":
        return False
    m = re.match(r"numpy:(returns|yields|receives):(name|annotation)$", fail.kind)
    if not m:
        return False
    d = fail.detail or {}
    for sec in case["sections"]:
        if sec["kind"] == m.group(1):
            items = sec["items"]
            j = d.get("item", -1)
            if 0 <= j < len(items):
                it = items[j]
                return bool(it["name"] and not it["ann"] and it.get("v", 0) & 4)
    return False


def _known_numpy_aliases(case, fail: Fail) -> bool:
    """docs list aliases (Args, Arguments, Params / Keyword Args, ... / Exceptions) for Numpydoc sections; they parse as admonitions."""
    if case["style"] != "numpy" or fail.clause != "sections":
        return False
    m = re.match(r"numpy:(parameters|other parameters|raises)->admonition$", fail.kind)
    if not m:
        return False
    aliases = {a.lower() for a in S.N_ALIASES[m.group(1)]}
    # the first section that was not recognised must be one written with an alias identifier
    exp = S.expected(case)
    k = (fail.detail or {}).get("index", -1)
    if not (0 <= k < len(exp)) or exp[k]["kind"] != m.group(1):
        return False
    return any(sec["kind"] == m.group(1) and sec["head"].lower() in aliases for sec in case["sections"])


def _known_google_single_item_splitlines(case, fail: Fail) -> bool:
    """Google Returns/Yields/Receives read as a single item (`*_multiple_items=False`): the block is cut with str.splitlines(), so a
    description line containing \x0b \x0c \x1c-\x1e \x85 \u2028 \u2029 or \r comes back with that character turned into a line break."""
    if case["style"] != "google" or fail.clause != "items":
        return False
    m = re.match(r"google:(returns|yields|receives):description$", fail.kind)
    if not m:
        return False
    kind = m.group(1)
    if case["opts"].get("receives_multiple_items" if kind == "receives" else "returns_multiple_items"):
        return False
    j = (fail.detail or {}).get("item", -1)
    for sec in case["sections"]:
        if sec["kind"] == kind and 0 <= j < len(sec["items"]):
            return any(ch in ln for ln in sec["items"][j]["desc"] for ch in S.LINE_INTERNAL)
    return False


KNOWN = {
    "google-single-item-splitlines": _known_google_single_item_splitlines,
    "numpy-returns-bare-name": _known_numpy_bare_name,
    "numpy-documented-aliases": _known_numpy_aliases,
}


# ----------------------------------------------------------------------------------------------- search
def strategy(ctx):
    return S.cases(frozenset(ctx.known)), "struct"


def _describe(ctx):
    def describe(case):
        for slug in case.get("steered", ()):
            ctx.excluded(slug)
        key = None
        if S.nontrivial(case):
            key = {k: v for k, v in case.items() if k not in ("margin", "steered")}
        kinds = _LAST.get("kinds", [])
        classes = [case["style"], "parent:" + case["parent"], f"{case['style']}:sections:{min(len(kinds), 5)}"]
        classes += sorted({f"{case['style']}:{k}" for k in kinds})
        if any("" in it["desc"] for s in case["sections"] for it in s.get("items", ())):
            classes.append("multi-paragraph-item")
        for a, b in zip(kinds, kinds[1:]):
            if a != "text" and b != "text":
                classes.append("adjacent-non-text")
                break
        if case["parent"] == "class" and case.get("inherit") and any(it.get("sig") for s in case["sections"] if s["kind"] == "attributes" for it in s["items"]):
            classes.append(f"{case['style']}:inherited-attributes")
        if case["style"] == "sphinx" and any(it["ann"] and " " not in it["ann"] and it.get("v", 0) & 2 for s in case["sections"] if s["kind"] == "parameters" for it in s["items"]):
            classes.append("sphinx:inline-param-type")
        if case["parent"] == "property":
            for sec in case["sections"]:
                if sec["kind"] in ("returns", "yields"):
                    untyped = sum(1 for it in sec["items"] if not it["ann"])
                    classes.append(f"{case['style']}:property:{sec['kind']}:{'untyped' if untyped else 'typed'}{'-multi' if len(sec['items']) > 1 else ''}{'' if case.get('retsig') else ':nosig'}")
        if any(ln.lstrip().startswith(":") for s in case["sections"] for it in s.get("items", ()) for ln in it["desc"][1:]):
            classes.append(f"{case['style']}:role-leading-continuation-line")
        on = [k for k, v in case["opts"].items() if v != (k in S.DEFAULT_TRUE)]
        classes += [f"{case['style']}:opt:{k}={case['opts'][k]}" for k in on]
        sample = None
        if key is not None:
            sample = {"style": case["style"], "opts": case["opts"], "parent": case["parent"], "docstring": S.render(case)}
        return key, classes, sample

    return describe


def run_shard(ctx) -> None:
    strat, salt = strategy(ctx)
    n = ctx.scale(14000, 240000)
    chunks = 4
    for k in range(chunks):
        if ctx.out_of_budget():
            break
        ctx.run_hypothesis(strat, check_case, max(1, n // chunks), describe=_describe(ctx), salt=salt if k == 0 else f"{salt}{k}")
