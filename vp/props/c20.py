"""C20 — Loading from Git leaves repository and filesystem untouched on every path; returned objects stay usable.

A case is a generated repository history (vp/gen/c20_repo.py: 2-4 commits of a small package — valid, syntax error in the
top-level or in a sub-module, package absent —, tags, branches incl. names with slashes, HEAD on main / on a branch /
detached, optional dirty state: modified tracked files, staged file, untracked files, a stash entry, a linked worktree of the
user's own) plus 1-3 operations, each with at most one injected fault:

    griffe.load_git(pkg, ref=R, repo=..., search_paths=[srcdir], force_inspection=F, resolve_aliases=A, extensions=E)
    griffe.check(pkg, against=R | None, base_ref=B | None, search_paths=[srcdir], force_inspection=F, extensions=[E])   (cwd = repository)
    (a third of the operations is called from a worker thread, result / exception handed back to the main thread; a third runs
    with the working tree's source root on sys.path, so that the user's *current* package is importable by the process —
    combined with refs at which the package is absent)

    faults: unknown reference; package absent at R; syntax error at R; a user branch that already has the name of Griffe's
    temporary branch; a user worktree whose directory is named like Griffe's temporary checkout (normalize(ref)) or branch; the
    repository being a clone in which the ref exists only as origin/<name>; an extension that raises Exception / KeyboardInterrupt at its k-th hook call (k over all hook calls
    counted in a fault-free dry run of the same operation); a slow git step (completes, then TimeoutExpired — only where Griffe
    passes a timeout); non-zero exit / OSError injected into the i-th `subprocess.run`
    of `_griffe.git` that precedes a worktree body (rev-parse, worktree add, tag -l).

Oracle, after every operation (dry runs included), whatever it returned or raised:
  * repo-unchanged: snapshot before == after — rev-parse HEAD, symbolic-ref HEAD, all refs with their targets (branches,
    tags, stash), worktree list --porcelain, status --porcelain=v2 (untracked files listed), ls-files -s, stash list, SHA-1
    and mode of every file in the working tree (and in the user's own linked worktrees), `git config --local --list`,
    .git/FETCH_HEAD;
  * no-temp-left: the case-private `tempfile.tempdir` holds no griffe-worktree-* entry;
  * objects-usable (load_git success only): for every module / class / function of the returned tree, `.source` — read after
    the checkout is gone — equals `git show R:<path>` sliced by the object's span (dedented), and is not empty. With
    resolve_aliases=True every alias of the returned package whose target exists inside the repository at R (internal
    re-exports; `sfunc` re-exported from a second top-level package of the same repository — the private sibling `_<pkg>`
    loaded on demand with resolve_external None/True, or a public sibling with resolve_external=True) is resolved to that
    target, and `.parameters`, `.lines`, `.source` read through the alias equal `git show R:<path>` sliced by the target's span;
  * check-verdict (check returned 0/1, static, explicit `against`): the exit code equals the one implied by an in-process
    `find_breaking_changes` of two ordinary `griffe.load`s of the same two trees exported with `git archive` (the working
    tree itself when there is no base_ref) — a metamorphic relation: going through temporary checkouts must not change
    the verdict.
"""

from __future__ import annotations

import atexit
import hashlib
import io
import os
import shutil
import stat
import subprocess as _real_subprocess
import sys
import tempfile
from pathlib import Path
from textwrap import dedent

from vp.common.harness import Fail, griffe_frames
from vp.gen import c20_repo as G

ID = "C20"
LEVEL = "fault_enumeration"
RULE = (
    "Hypothesis-generated cases: a scratch git repository (2-4 commits of a 4-module package with per-commit API variants, a commit "
    "with a syntax error in the top-level / a sub-module or without the package, 1-3 tags, 1-3 branches incl. slashed names, HEAD on "
    "main/branch/detached, optional modified+staged+untracked+stashed user work, optional user worktree, optional .gitignore, optionally a "
    "second top-level package (private sibling _<pkg> or public sibling) that the first re-exports a function from) and 1-3 "
    "operations load_git / check with ref in {tag, branch, slashed branch, sha, short sha, HEAD, HEAD~1, main, unknown}, force_inspection, "
    "resolve_aliases, resolve_external in {None,True,False}, "
    "and at most one fault (extension raising Exception/KeyboardInterrupt at hook call k of N counted in a dry run; non-zero exit/OSError "
    "at the i-th pre-body git subprocess; pre-existing griffe-<ref> branch; user worktree directory named normalize(ref) / griffe-<normref>; "
    "repository is a clone and the ref exists only as origin/<name>). evaluations = operations executed and judged (dry runs "
    "included). non-trivial operation = a fault was injected and reached, or the operation failed, or the working tree is dirty, or the "
    "ref contains a slash; distinct = distinct (history, operation, fault) triple"
)
ASSUMPTIONS = [
    "git 2.39 with global/system configuration disabled (GIT_CONFIG_GLOBAL=/dev/null, GIT_CONFIG_SYSTEM=/dev/null); repository state is "
    "what the listed git commands and a content hash of the working tree show (git objects, reflogs and .git/config are not compared)",
    "faults are injected synchronously: at extension hook calls and at `subprocess.run` calls of _griffe.git that precede a worktree body; "
    "failures of Griffe's own clean-up commands (worktree remove / prune / branch -D) and asynchronous signals are not injected — no "
    "implementation could restore the repository if its clean-up commands themselves are made to fail",
    "an injected sub-process failure (non-zero exit, OSError) means the command is not executed; an injected timeout means the command ran to "
    "completion and subprocess.run then raised TimeoutExpired — injected only where the caller passed a timeout, since it cannot happen otherwise "
    "(no real sleeping: a genuinely slow hook would cost more than the quick tier's whole budget)",
    "every operation runs with byte-code writing enabled as in a user's interpreter (sys.dont_write_bytecode=False during the call; the runner "
    "itself sets PYTHONDONTWRITEBYTECODE=1), so anything Griffe imports leaves __pycache__ behind — in the temporary checkout or, wrongly, in the user's tree; `check` with force_inspection is only generated together with base_ref, because importing the "
    "*current* working tree writes __pycache__ there by CPython's own doing",
    "generated package sources are free of side effects except, in some commits, writing one generated file next to their own sources at import "
    "time (only ever executed under force_inspection, inside the temporary checkout); package names are unique per history and purged from sys.modules after each operation",
    "check() is called in-process with the repository as working directory (the documented CLI usage: `griffe check pkg -s src -a REF`)",
]
BUDGET_S = {"quick": 80.0, "thorough": 1100.0}
SHRINK_MAX_EXAMPLES = 400

_BASE: Path | None = None
_OWN_BASE: Path | None = None
_COUNTER = [0]
_LAST: dict = {}
_MARK = "c20-injected-fault"


class InjectedError(Exception):
    pass


def _workdir() -> Path:
    global _OWN_BASE
    base = _BASE
    if base is None:
        if _OWN_BASE is None:
            root = Path(os.environ.get("VERIF_TMP") or ("/dev/shm" if os.access("/dev/shm", os.W_OK) else "/var/tmp"))
            _OWN_BASE = root / f"verif-C20-own-{os.getpid()}"
            _OWN_BASE.mkdir(parents=True, exist_ok=True)
            atexit.register(shutil.rmtree, str(_OWN_BASE), True)
        base = _OWN_BASE
    _COUNTER[0] += 1
    wd = Path(base) / f"c{_COUNTER[0]}"
    shutil.rmtree(wd, ignore_errors=True)
    wd.mkdir(parents=True)
    return wd


# ----------------------------------------------------------------------------- observation
def _hash_tree(root: Path, out: dict, prefix: str) -> None:
    for dirpath, dirnames, filenames in os.walk(root):
        if ".git" in dirnames:
            dirnames.remove(".git")
        dirnames.sort()
        rel_dir = os.path.relpath(dirpath, root)
        if not dirnames and not filenames:
            out[f"{prefix}{rel_dir}/"] = "empty-dir"
        for fn in sorted(filenames):
            p = os.path.join(dirpath, fn)
            st = os.lstat(p)
            if stat.S_ISREG(st.st_mode):
                with open(p, "rb") as fh:
                    h = hashlib.sha1(fh.read()).hexdigest()
            else:
                h = "special"
            out[f"{prefix}{os.path.normpath(os.path.join(rel_dir, fn))}"] = f"{h}:{stat.S_IMODE(st.st_mode):o}"


def _read_or_none(path: Path):
    try:
        return hashlib.sha1(path.read_bytes()).hexdigest()
    except OSError:
        return None


def snapshot(info) -> dict:
    repo = info["repo"]
    refs = G.git(repo, "for-each-ref", "--format=%(refname) %(objectname)").splitlines()
    files: dict = {}
    _hash_tree(repo, files, "")
    for n, uw in enumerate(info.get("user_worktrees", ())):
        if uw.exists():
            _hash_tree(uw, files, f"<user-worktree-{n}>/")
        else:
            files[f"<user-worktree-{n}>"] = "directory-missing"
    return {
        "HEAD": G.git(repo, "rev-parse", "HEAD").strip(),
        "symbolic-ref": G.git(repo, "symbolic-ref", "-q", "HEAD", check=False).strip(),
        "branches": [r for r in refs if r.startswith("refs/heads/")],
        "tags": [r for r in refs if r.startswith("refs/tags/")],
        "other-refs": [r for r in refs if not r.startswith(("refs/heads/", "refs/tags/"))],
        "worktrees": G.git(repo, "worktree", "list", "--porcelain").strip().splitlines(),
        "status": G.git(repo, "status", "--porcelain=v2", "--untracked-files=all").splitlines(),
        "index": G.git(repo, "ls-files", "-s").splitlines(),
        "stash": G.git(repo, "stash", "list").splitlines(),
        "config": G.git(repo, "config", "--local", "--list").splitlines(),
        "FETCH_HEAD": _read_or_none(Path(repo) / ".git" / "FETCH_HEAD"),
        "files": files,
    }


def _diff(before: dict, after: dict) -> dict:
    out = {}
    for k in before:
        a, b = before[k], after[k]
        if a == b:
            continue
        if isinstance(a, dict):
            out[k] = {"added": sorted(set(b) - set(a))[:6], "removed": sorted(set(a) - set(b))[:6], "changed": sorted(x for x in a if x in b and a[x] != b[x])[:6]}
        elif isinstance(a, list):
            out[k] = {"added": [x for x in b if x not in a][:6], "removed": [x for x in a if x not in b][:6]}
        else:
            out[k] = {"before": a, "after": b}
    return out


# ----------------------------------------------------------------------------- fault machinery
class _SubprocessProxy:
    """Stands in for the `subprocess` module inside _griffe.git only: records every `run`, injects a failure into the i-th
    one that is not a clean-up command."""

    def __init__(self, plan):
        self._plan = plan
        self.trace: list[str] = []
        self.eligible = 0
        self.injected = False

    def __getattr__(self, name):
        return getattr(_real_subprocess, name)

    def run(self, args, **kw):
        argv = [str(a) for a in args]
        words = [a for a in argv[1:] if not a.startswith("/")]
        cleanup = "remove" in argv or "prune" in argv or ("branch" in argv and "-D" in argv)
        label = "worktree-" + argv[argv.index("worktree") + 1] if "worktree" in argv else ("branch-D" if cleanup else (words[2] if len(words) > 2 and words[0] == "-C" else words[0]))
        self.trace.append(label)
        if not cleanup:
            idx = self.eligible
            self.eligible += 1
            if self._plan is not None and self._plan["i"] == idx and not self.injected and self._plan["type"] == "sub_timeout":
                # a slow step (big checkout, smudge filter, hook): git does all its work, then the caller's own timeout fires.
                # subprocess.run can only raise TimeoutExpired when a timeout was passed — without one nothing is injected.
                if kw.get("timeout") is not None:
                    self.injected = True
                    self.trace[-1] = label + "!TIMEOUT-AFTER-COMPLETION"
                    done = _real_subprocess.run(args, **{k: v for k, v in kw.items() if k != "timeout"})
                    raise _real_subprocess.TimeoutExpired(argv, kw["timeout"], output=done.stdout, stderr=done.stderr)
                self.trace[-1] = label + "(no-timeout-set)"
            elif self._plan is not None and self._plan["i"] == idx and not self.injected:
                self.injected = True
                self.trace[-1] = label + "!FAULT"
                if self._plan["type"] == "sub_oserror":
                    raise OSError(5, f"{_MARK}: cannot execute git")
                if kw.get("check"):
                    raise _real_subprocess.CalledProcessError(128, argv, output=None, stderr=None)
                text = kw.get("text") or kw.get("universal_newlines") or kw.get("encoding")
                msg = f"fatal: {_MARK}"
                return _real_subprocess.CompletedProcess(argv, 128, stdout="" if text else b"", stderr=msg if text else msg.encode())
        if "stderr" not in kw and not kw.get("capture_output"):
            kw["stderr"] = _real_subprocess.DEVNULL  # keep git's complaints out of the runner's output
        return _real_subprocess.run(args, **kw)


def _make_extension(k_fault, fault_type):
    import griffe

    state = {"n": 0, "hooks": [], "fired": False}

    def make(hook):
        def method(self, **kwargs):  # noqa: ARG001
            i = state["n"]
            state["n"] += 1
            if len(state["hooks"]) < 4000:
                state["hooks"].append(hook)
            if k_fault is not None and i == k_fault:
                state["fired"] = True
                if fault_type == "ext_kbi":
                    raise KeyboardInterrupt(_MARK)
                raise InjectedError(f"{_MARK} at hook call {i} ({hook})")

        method.__name__ = hook
        return method

    ns = {name: make(name) for name in dir(griffe.Extension) if name.startswith("on_")}
    cls = type("C20FaultExtension", (griffe.Extension,), ns)
    return cls(), state


def _purge(name: str) -> None:
    for k in list(sys.modules):
        if k == name or k.startswith(name + "."):
            del sys.modules[k]
    for k in list(sys.path_importer_cache):
        if "griffe-worktree-" in k:
            del sys.path_importer_cache[k]


def _plan_op(op, info, case) -> dict:
    ref, ref_commit = G.resolve_ref(op["ref"], info)
    base, base_commit = (None, None)
    if op["op"] == "check" and op.get("base"):
        base, base_commit = G.resolve_ref(op["base"], info)
    force = bool(op["force"]) and (op["op"] == "load_git" or base is not None)
    against_none = op["op"] == "check" and bool(op.get("against_none"))
    return {"ref": ref, "ref_commit": ref_commit, "base": base, "base_commit": base_commit, "force": force, "against_none": against_none}


def _execute(op, plan, info, case, tmpdir: Path, ext_k, sub_plan) -> dict:
    """Run one operation against Griffe with everything process-global saved and restored."""
    import colorama
    import colorama.initialise as ci
    import griffe
    import _griffe.git as ggit

    name, repo = info["name"], info["repo"]
    fault = op.get("fault") or {}
    ext, ext_state = _make_extension(ext_k, fault.get("type"))
    proxy = _SubprocessProxy(sub_plan)
    saved = {
        "cwd": os.getcwd(),
        "tempdir": tempfile.tempdir,
        "dwb": sys.dont_write_bytecode,
        "stdout": sys.stdout,
        "stderr": sys.stderr,
        "env": {k: os.environ.get(k) for k in G.GIT_ENV},
        "sub": ggit.subprocess,
        "path": list(sys.path),
    }
    search_paths = [case["srcdir"]] if case["srcdir"] != "." else None
    out: dict = {"outcome": "ok", "exc": None, "result": None}
    captured = io.StringIO()
    try:
        os.environ.update(G.GIT_ENV)
        os.chdir(repo)
        tempfile.tempdir = str(tmpdir)
        # byte-code writing as in a user's interpreter (the runner itself sets PYTHONDONTWRITEBYTECODE=1): whatever Griffe imports
        # — the checkout under force_inspection, or anything its fall-back to dynamic import reaches — leaves its traces
        sys.dont_write_bytecode = False
        if op.get("root_on_syspath"):
            sys.path.insert(0, str(info["src"]))  # restored below with the saved copy
        ggit.subprocess = proxy
        sys.stdout = sys.stderr = captured
        def call():
            if op["op"] == "load_git":
                return griffe.load_git(
                    name,
                    ref=plan["ref"],
                    repo=str(repo),
                    search_paths=search_paths,
                    extensions=griffe.load_extensions(ext),
                    force_inspection=plan["force"],
                    resolve_aliases=bool(op["resolve_aliases"]),
                    resolve_external=op.get("external"),
                )
            return griffe.check(
                name,
                None if plan["against_none"] else plan["ref"],
                base_ref=plan["base"],
                search_paths=search_paths,
                extensions=[ext],
                force_inspection=plan["force"],
                color=False,
            )

        try:
            if op.get("thread"):
                # library use from a worker thread (documentation builders, servers): result / exception are handed back
                import threading

                box: dict = {}

                def target():
                    try:
                        box["result"] = call()
                    except BaseException as e:  # noqa: BLE001
                        box["exc"] = e

                t = threading.Thread(target=target, name="c20-worker")
                t.start()
                t.join()
                if "exc" in box:
                    raise box["exc"]
                out["result"] = box.get("result")
            else:
                out["result"] = call()
        except BaseException as e:  # noqa: BLE001
            if isinstance(e, (KeyboardInterrupt, SystemExit)) and _MARK not in str(e) and not griffe_frames(e.__traceback__):
                raise
            out["exc"] = e
            out["outcome"] = type(e).__name__
    finally:
        ggit.subprocess = saved["sub"]
        try:
            colorama.deinit()
        except Exception:  # noqa: BLE001
            pass
        ci.orig_stdout = ci.orig_stderr = ci.wrapped_stdout = ci.wrapped_stderr = None
        sys.stdout, sys.stderr = saved["stdout"], saved["stderr"]
        sys.dont_write_bytecode = saved["dwb"]
        tempfile.tempdir = saved["tempdir"]
        os.chdir(saved["cwd"])
        for k, v in saved["env"].items():
            if v is None:
                os.environ.pop(k, None)
            else:
                os.environ[k] = v
        sys.path[:] = saved["path"]
        _purge(name)
        if info.get("sibling"):
            _purge(info["sibling"])
    out.update(hooks=ext_state["n"], ext_fired=ext_state["fired"], trace=proxy.trace, sub_injected=proxy.injected, stderr=captured.getvalue()[-400:])
    return out


def _relpath_in_checkout(filepath) -> str | None:
    parts = Path(filepath).parts
    for i, part in enumerate(parts):
        if part.startswith("griffe-worktree-"):
            return "/".join(parts[i + 2 :])
    return None


def _check_sources(result, plan, info, what: str) -> list[Fail]:
    fails: list[Fail] = []
    repo = info["repo"]
    cache: dict[str, list[str] | None] = {}
    seen = 0
    through_symlink = [0]

    def walk(obj):
        nonlocal seen
        if len(fails) >= 3:
            return
        kind = obj.kind.value
        if kind in ("module", "class", "function"):
            fp = obj.filepath
            rel = None if isinstance(fp, list) else _relpath_in_checkout(fp)
            if rel is not None and info.get("vendored") and f"{info['name']}/vendor/" in rel:
                # reached through the tracked symlink <pkg>/vendor -> ../_vendored: git stores the file under its real path
                rel = rel.replace(f"{info['name']}/vendor/", "_vendored/", 1)
                through_symlink[0] += 1
            if rel is not None and (kind == "module" or (obj.lineno is not None and obj.endlineno is not None)):
                lines = _git_show_lines(repo, plan["ref"], rel, cache)
                if lines is not None:
                    expected = dedent("\n".join(lines if kind == "module" else lines[obj.lineno - 1 : obj.endlineno]))
                    seen += 1
                    try:
                        got = obj.source
                    except Exception as exc:  # noqa: BLE001
                        fails.append(Fail("objects-usable", f"source-raises:{type(exc).__name__}", f"{what}: {obj.path}.source raised {type(exc).__name__}: {exc} after the checkout was removed"))
                        return
                    if got != expected or (expected.strip() and not got.strip()):
                        fails.append(
                            Fail(
                                "objects-usable",
                                "source-empty" if not got else "source-differs",
                                f"{what}: {kind} {obj.path} (lines {obj.lineno}-{obj.endlineno} of {rel}) .source is {got[:80]!r}, `git show {plan['ref']}:{rel}` gives {expected[:80]!r}",
                            )
                        )
        if kind in ("module", "class"):
            for m in obj.members.values():
                if not m.is_alias:
                    walk(m)

    walk(result)
    info["_through_symlink"] = through_symlink[0]
    if seen == 0 and not fails:
        fails.append(Fail("objects-usable", "nothing-checkable", f"{what}: returned tree has no module/class/function with a file path inside the temporary checkout"))
    return fails


def _expected_aliases(op, plan, info, case) -> dict[str, str]:
    """Aliases of the returned top-level package that are resolvable inside the repository at the ref, by construction of
    the generated sources: name -> expected canonical target path."""
    if plan["ref_commit"] is None:
        return {}
    state = case["commits"][plan["ref_commit"]]["state"]
    name, sib = info["name"], info.get("sibling")
    out = {}
    if state in ("ok", "syntax_sub"):
        out["Klass"] = f"{name}.sub.b.K"
    if state == "ok":
        out["f0"] = f"{name}.a.f0"
    ext = op.get("external")
    if sib and state in ("ok", "syntax_sub"):
        on_demand = (case.get("sibling") == "private" and ext in (None, True)) or (case.get("sibling") == "public" and ext is True)
        if on_demand:
            out["sfunc"] = f"{sib}.impl.sfunc"
    return out


def _git_show_lines(repo, ref: str, rel: str, cache: dict):
    if rel not in cache:
        p = _real_subprocess.run(["git", "-C", str(repo), "show", f"{ref}:{rel}"], capture_output=True, text=True, check=False, env={**os.environ, **G.GIT_ENV})
        cache[rel] = p.stdout.splitlines() if p.returncode == 0 else None
    return cache[rel]


def _check_aliases(result, op, plan, info, case, what: str) -> list[Fail]:
    """Every alias that is resolvable inside the repository must be resolved in the returned tree, and its final target
    must be as usable as a directly loaded object: parameters, lines and source (== git show sliced by the span)."""
    fails: list[Fail] = []
    cache: dict = {}
    for alias_name, target_path in _expected_aliases(op, plan, info, case).items():
        where = f"{what}: alias {info['name']}.{alias_name} -> {target_path}"
        try:
            member = result.members[alias_name]
        except KeyError:
            fails.append(Fail("objects-usable", "alias-missing", f"{where}: no such member in the returned package"))
            continue
        if not member.is_alias:
            continue  # (inspection may materialise the object itself; then _check_sources covers it)
        try:
            target = member.final_target
            kind = target.kind.value
            lines = member.lines
            source = member.source
            if kind == "function":
                [p.name for p in member.parameters]
            lineno, endlineno, fp = target.lineno, target.endlineno, target.filepath
        except Exception as exc:  # noqa: BLE001
            fails.append(
                Fail(
                    "objects-usable",
                    f"alias-unusable:{type(exc).__name__}[{'sibling' if alias_name == 'sfunc' else 'internal'}]",
                    f"{where}: the target exists at {plan['ref']!r} inside the repository (resolve_external={op.get('external')!r}), yet using the returned alias raises {type(exc).__name__}: {str(exc)[:160]}",
                )
            )
            continue
        if target.path != target_path:
            fails.append(Fail("objects-usable", "alias-wrong-target", f"{where}: resolved to {target.path}"))
            continue
        rel = None if isinstance(fp, list) else _relpath_in_checkout(fp)
        if rel is None or lineno is None or endlineno is None:
            continue
        shown = _git_show_lines(info["repo"], plan["ref"], rel, cache)
        if shown is None:
            continue
        expected = dedent("\n".join(shown[lineno - 1 : endlineno]))
        if source != expected or lines != shown[lineno - 1 : endlineno]:
            fails.append(
                Fail(
                    "objects-usable",
                    "alias-source-differs",
                    f"{where}: .source through the alias is {source[:80]!r}, `git show {plan['ref']}:{rel}` lines {lineno}-{endlineno} give {expected[:80]!r}",
                )
            )
    return fails


def _export(repo, ref: str, dest: Path) -> bool:
    import tarfile

    p = _real_subprocess.run(["git", "-C", str(repo), "archive", "--format=tar", ref], capture_output=True, check=False, env={**os.environ, **G.GIT_ENV})
    if p.returncode:
        return False
    dest.mkdir(parents=True)
    with tarfile.open(fileobj=io.BytesIO(p.stdout)) as tf:
        tf.extractall(dest, filter="data")
    return True


def _check_verdict(op, plan, info, case, run, wd: Path, what: str) -> tuple[list[Fail], str]:
    """check(): the exit code must be what an in-process diff of two ordinary `griffe.load`s of the same two trees gives
    (trees exported with `git archive` into the case's scratch dir; the working tree itself when no base_ref is given)."""
    import griffe

    name = info["name"]
    _COUNTER[0] += 1
    exp = wd / f"export{_COUNTER[0]}"
    src = case["srcdir"]
    try:
        if not _export(info["repo"], plan["ref"], exp / "old"):
            return [], "reference-unavailable"
        if plan["base"] is not None:
            if not _export(info["repo"], plan["base"], exp / "new"):
                return [], "reference-unavailable"
            new_root = exp / "new" / src
        else:
            new_root = info["src"]
        try:
            kw = {"try_relative_path": False, "resolve_aliases": True, "resolve_external": None}
            old = griffe.load(name, search_paths=[str(exp / "old" / src)], **kw)
            new = griffe.load(name, search_paths=[str(new_root)], **kw)
            breakages = list(griffe.find_breaking_changes(old, new))
        except Exception:  # noqa: BLE001
            return [], "reference-failed"
    finally:
        shutil.rmtree(exp, ignore_errors=True)
    expected = 1 if breakages else 0
    if run["result"] != expected:
        first = breakages[0].kind.name + " " + breakages[0].obj.path if breakages else "-"
        return [
            Fail(
                "check-verdict",
                f"exit-{run['result']}-expected-{expected}",
                f"{what}: check returned {run['result']}, an in-process diff of ordinary loads of `git archive {plan['ref']}` and "
                f"{'`git archive ' + plan['base'] + '`' if plan['base'] else 'the working tree'} finds {len(breakages)} breakage(s) (first: {first})",
            )
        ], "compared"
    return [], "compared"


def _what(op, plan, info) -> str:
    name = info["name"]
    if op["op"] == "load_git":
        return f"load_git({name!r}, ref={plan['ref']!r}, force_inspection={plan['force']}, resolve_aliases={bool(op['resolve_aliases'])}, resolve_external={op.get('external')!r})"
    return f"check({name!r}, against={None if plan['against_none'] else plan['ref']!r}, base_ref={plan['base']!r}, force_inspection={plan['force']})"


def _judge(op, plan, info, before, run, tmpdir: Path, tag: str, case=None, wd: Path | None = None) -> list[Fail]:
    fails: list[Fail] = []
    what = _what(op, plan, info) + (f" [{tag}]" if tag else "") + f" -> {run['outcome']}"
    after = snapshot(info)
    diff = _diff(before, after)
    if diff:
        # coarse, root-cause oriented bucket: Griffe's own temporary branch / worktree registration left behind, vs. anything else
        temp_left = any(x.startswith("refs/heads/griffe-") for x in diff.get("branches", {}).get("added", ())) or any(
            "griffe-worktree-" in x for x in diff.get("worktrees", {}).get("added", ())
        )
        feats = "temp-branch-or-worktree-left" if temp_left and set(diff) <= {"branches", "worktrees"} else "+".join(sorted(diff))
        cause = "force-inspection" if plan["force"] else "static"
        fails.append(Fail("repo-unchanged", f"{feats}[{cause}]", f"{what}: repository changed: {diff}; git calls: {run['trace']}", diff))
    left = sorted(p.name for p in tmpdir.iterdir() if p.name.startswith("griffe-worktree-"))
    if left:
        fails.append(Fail("no-temp-left", "worktree-dir-left", f"{what}: temporary checkout left behind in the temp dir: {left[:3]}"))
    if op["op"] == "load_git" and run["outcome"] == "ok" and run["result"] is not None:
        fails += _check_sources(run["result"], plan, info, what)
        if case is not None and op["resolve_aliases"]:
            fails += _check_aliases(run["result"], op, plan, info, case, what)
            run["aliases_checked"] = sorted(_expected_aliases(op, plan, info, case))
    if (
        op["op"] == "check" and case is not None and wd is not None and run["outcome"] == "ok" and run["result"] in (0, 1)
        and not plan["force"] and not plan["against_none"] and plan["ref_commit"] is not None and not diff
    ):
        vf, status = _check_verdict(op, plan, info, case, run, wd, what)
        fails += vf
        run["verdict"] = status
    return fails


def check_case(case) -> list[Fail]:
    import _griffe.git as ggit

    case = G.normalise(case)

    fails: list[Fail] = []
    records = []
    wd = _workdir()
    env_saved = {k: os.environ.get(k) for k in G.GIT_ENV}
    try:
        info = G.build_repo(case, wd)
        tmpdir = wd / "tmp"
        tmpdir.mkdir()
        dirty = any(case["dirty"].values())
        hist = {k: v for k, v in case.items() if k != "ops"}
        for op in case["ops"]:
            plan = _plan_op(op, info, case)
            fault = op.get("fault")
            if op.get("preexisting"):
                pre = f"griffe-{ggit._normalize(plan['ref'])}"
                G.git(info["repo"], "branch", pre, info["shas"][0], check=False)
            if op.get("user_wt"):
                # a linked worktree of the user's own whose directory is named like Griffe's temporary checkout / branch
                normref = ggit._normalize(plan["ref"])
                n = len(info["user_worktrees"])
                uw = wd / f"uw{n}" / (normref if op["user_wt"] == "ref" else f"griffe-{normref}")
                if normref:
                    uw.parent.mkdir()
                    G.git(info["repo"], "worktree", "add", "-q", "-b", f"user/wt{n}", str(uw), info["shas"][0])
                    (uw / "user work in progress.txt").write_text("not committed\n")
                    info["user_worktrees"].append(uw)
            runs = []
            ext_k = None
            sub_plan = None
            if fault and fault["type"].startswith("ext_"):
                # dry run: count the hook calls of this very operation, judged like any other operation
                before = snapshot(info)
                dry = _execute(op, plan, info, case, tmpdir, None, None)
                f0 = _judge(op, plan, info, before, dry, tmpdir, "dry run", case, wd)
                fails += f0
                runs.append(("dry", dry, f0))
                if dry["hooks"] > 0 and not f0:
                    ext_k = fault["k"] % dry["hooks"]
            elif fault:
                # load_git runs exactly two git commands before the worktree body (rev-parse, worktree add); check runs 2-5
                sub_plan = {**fault, "i": fault["i"] % 2} if op["op"] == "load_git" else fault
            if not fault or ext_k is not None or sub_plan is not None:
                before = snapshot(info)
                run = _execute(op, plan, info, case, tmpdir, ext_k, sub_plan)
                tag = ""
                if ext_k is not None:
                    tag = f"{fault['type']} at hook call {ext_k}/{runs[0][1]['hooks']}"
                elif sub_plan is not None:
                    tag = f"{fault['type']} at git call {sub_plan['i']}" + ("" if run["sub_injected"] else " (not reached)")
                f1 = _judge(op, plan, info, before, run, tmpdir, tag, case, wd)
                fails += f1
                runs.append(("main", run, f1))
            polluted = any(f.clause in ("repo-unchanged", "no-temp-left") for _r, _run, fl in runs for f in fl)
            for role, run, _f in runs:
                reached = run["ext_fired"] or run["sub_injected"]
                failed = run["outcome"] != "ok"
                slashed = "/" in plan["ref"] and plan["ref_commit"] is not None
                nontrivial = reached or failed or dirty or slashed
                classes = [
                    f"op:{op['op']}",
                    f"ref:{op['ref'][0]}" + ("" if plan["ref_commit"] is not None else "(nonexistent)"),
                    f"outcome:{op['op']}:{run['outcome']}",
                    f"force_inspection={plan['force']}",
                    "fault:" + (fault["type"] if fault and role == "main" else ("dry-run" if role == "dry" else "none")) + ("" if not (fault and role == "main") else (":reached" if reached else ":not-reached")),
                ]
                if slashed:
                    classes.append("ref-with-slash")
                if op.get("preexisting"):
                    classes.append("preexisting-griffe-branch")
                if plan["ref_commit"] is not None and case["commits"][plan["ref_commit"]].get("gen_file"):
                    classes.append("package-at-ref-writes-a-file-at-import" + (":inspected" if plan["force"] else ""))
                if role == runs[-1][0] and info.pop("_through_symlink", 0):
                    classes.append("sources-checked-through-tracked-symlink")
                classes.append("called-from:" + ("worker-thread" if op.get("thread") else "main-thread"))
                if op.get("root_on_syspath"):
                    in_wt = (info["src"] / info["name"] / "__init__.py").exists()
                    absent_at_ref = plan["ref_commit"] is not None and case["commits"][plan["ref_commit"]]["state"] == "absent"
                    classes.append("source-root-on-sys.path" + (":package-absent-at-ref-but-in-working-tree" if in_wt and absent_at_ref else ""))
                if op.get("user_wt"):
                    classes.append(f"user-worktree-dir-named-like:{op['user_wt']}")
                if plan["ref_commit"] is not None:
                    classes.append("commit-message-at-ref:" + ("ascii", "utf-8", "raw-latin-1", "very-long", "multi-line", "control-chars")[case["commits"][plan["ref_commit"]].get("msg", 0) % 6])
                if op["op"] == "check" and plan["against_none"]:
                    classes.append("check:latest-tag:" + ("no-local-tag" if not info.get("local_tags") else "has-tags") + (":clone" + ("+upstream-moved" if case.get("upstream_after") else "") if info.get("clone") else ""))
                if info.get("clone"):
                    classes.append(f"clone:{info['clone']}")
                    if op["ref"][0] in ("branch", "slashed") and plan["ref_commit"] is None and plan["ref"] in info["branches"]:
                        classes.append("clone:ref-exists-only-as-origin/<name>" + ("(slashed)" if "/" in plan["ref"] else ""))
                if plan["ref_commit"] is not None:
                    classes.append("commit-state-at-ref:" + case["commits"][plan["ref_commit"]]["state"])
                if "sfunc" in run.get("aliases_checked", ()):
                    classes.append(f"alias-into-sibling-checked:{case.get('sibling')}:external={op.get('external')}")
                elif run.get("aliases_checked"):
                    classes.append("internal-aliases-checked")
                if run.get("verdict"):
                    classes.append("check:verdict-" + run["verdict"] + (f":exit{run['result']}" if run["verdict"] == "compared" else ""))
                if op["op"] == "check":
                    classes.append("check:base_ref" if plan["base"] else "check:working-tree")
                    if plan["against_none"]:
                        classes.append("check:latest-tag")
                key = [hist, {k: v for k, v in op.items() if k != "fault"}, (fault if role == "main" else None), role] if nontrivial else None
                records.append((key, classes, {"op": _what(op, plan, info), "role": role, "outcome": run["outcome"], "git_calls": run["trace"], "hook_calls": run["hooks"]}))
            if polluted:
                # the repository is no longer what the model says: judging further operations on it would only report
                # consequences of the failure already recorded (left-over branch makes the next `worktree add -b` fail, ...)
                break
    finally:
        for k, v in env_saved.items():
            if v is None:
                os.environ.pop(k, None)
            else:
                os.environ[k] = v
        shutil.rmtree(wd, ignore_errors=True)
    _LAST.clear()
    _LAST["records"] = records
    return fails


# ----------------------------------------------------------------------------- search
def _case_classes(case) -> list[str]:
    d = case["dirty"]
    cl = [f"head:{case['head']}", f"srcdir:{case['srcdir']}", f"commits:{len(case['commits'])}", f"ops:{len(case['ops'])}"]
    cl.append("dirty:" + ("+".join(k for k in ("modified", "staged", "untracked", "stash") if d.get(k)) or "clean"))
    if case.get("user_worktree"):
        cl.append("user-worktree")
    if case.get("gitignore"):
        cl.append("gitignore-pycache")
    cl.append(f"sibling-package:{case.get('sibling')}")
    if any("/" in G.BRANCH_NAMES[ni % len(G.BRANCH_NAMES)] for ni, _ in case["branches"]):
        cl.append("has-slashed-branch")
    return cl


def strategy(ctx):
    global _BASE
    if _BASE is None:
        _BASE = ctx.tmp  # also used by the runner's shrink worker, whose scratch dir is removed by ctx.cleanup()
    return G.strategy(), "c20"


def run_shard(ctx) -> None:
    global _BASE
    _BASE = ctx.tmp

    def describe(case):
        recs = _LAST.get("records") or []
        if not recs:
            return None, _case_classes(case), None
        for key, classes, _sample in recs[1:]:
            ctx.case(key, classes, None)
        key, classes, sample = recs[0]
        samples = {"history": {k: v for k, v in case.items() if k != "ops"}, "operations": [r[2] for r in recs]}
        return key, [*classes, *_case_classes(case)], samples

    strat, salt = strategy(ctx)
    ctx.run_hypothesis(strat, check_case, max_examples=ctx.scale(32, 1200), describe=describe, salt=salt)
