"""C17 — Static and dynamic analysis agree on the API skeleton (CPython referees signatures).

Domain: generated importable modules/packages (vp/gen/c17_pkg.py): 1-10 modules, packages nested up to depth 3, acyclic
intra-package imports of classes, functions, modules and plain values in every import form, functions of all five
parameter kinds, classes with instance/static/class methods, properties, cached properties, nested classes, inheritance
inside and across modules, literal-valued module/class attributes, docstrings of many whitespace shapes.

Oracle: summary(griffe.load(pkg, allow_inspection=False)) vs summary(griffe.load(pkg, force_inspection=True)) on the same
files, per nesting level; CPython (the package is imported in-process, `inspect.signature`) is the referee for parameters.

Clauses (each is a sentence of the property statement):
  names       same member names at every level (interpreter-provided dunders ignored unless the source binds them;
              names only assigned as `self.x` in `__init__` removed from the static side)
  kinds       same kind (module / class / function / attribute) for a name both agents define in place
  flavour     same method flavour (plain / staticmethod / classmethod / property / cached property); these words are
              the `ObjectNode.kind` ladder of the anchors and are spelled identically by both agents (they are not
              "agent-specific label vocabulary" such as class-attribute vs class); `async` is NOT compared
  signature-static   static parameters (name, kind, required-ness of non-variadic ones) == inspect.signature(function)
  signature-dynamic  dynamic parameters == inspect.signature(function) or == the bound view CPython gives through
              class attribute access (classmethod without `cls`)
  bases       same resolved base-class paths (consumer API `Class.resolved_bases` semantics on both trees; the subscript
              of `Repo[int]` / `Generic[T]` is ignored: only the static agent could give it)
  docstring   same docstring presence and value on modules, classes, functions (and property getters, which are functions in
              the source); an empty / whitespace-only literal is a docstring with value "" (CPython: `__doc__ == ""`)
  alias       every imported class/function/module is an alias on both sides, reaching the same final target path
Tolerated, never compared: line numbers, labels other than the five flavours, attribute values/annotations/docstrings,
whether an imported plain value is an alias (static) or an attribute (dynamic).
"""

from __future__ import annotations

import functools
import importlib
import inspect
import itertools
import linecache
import os
import shutil
import sys
import tempfile
import types
from pathlib import Path

from vp.common.bootstrap import HarnessError
from vp.common.harness import Fail, call, digest
from vp.gen import c17_pkg as gen

ID = "C17"
LEVEL = "exploration"
RULE = (
    "Hypothesis-generated importable packages (JSON model -> files): 1-10 modules, packages nested up to pkg/sub/deep/core, acyclic "
    "intra-package imports (from/import/relative level 1-4/as/wildcard) of classes, functions, modules and values, functions with all "
    "five parameter kinds/defaults/annotations, classes with instance/static/class methods, properties, cached properties, "
    "nested classes, single and multiple inheritance inside and across modules, generic classes (Generic[T], Protocol, Protocol[T] "
    "with a module-level TypeVar; subscripted Repo[int]/Repo[T] and unsubscripted subclasses and their multi-base descendants), "
    "partial default runs after a positional-only group, literal attributes, docstrings. "
    "non-trivial = >=2 modules with >=1 intra-package import and a class with >=2 method flavours; distinct = distinct model"
)
ASSUMPTIONS = [
    "CPython 3.12 (in-process import of the generated package, inspect.signature, vars()) is the referee for parameters and for "
    "what an imported name is (class/function/module vs plain value)",
    "conditional code is generated only where the visitor's rule (first binding / no-exception case) and the runtime must agree: a "
    "succeeding `try: import` with `except ImportError: name = literal` fallbacks, and a constant-false `if` (or the else of a constant-true "
    "`if`) re-assigning a name already bound by a def/class/import/assignment of that scope; no TYPE_CHECKING blocks",
    "excluded by construction (only one agent can know them / inspector docs): all other conditional definitions, annotation-only attributes, "
    "callable instances, lambdas and class aliases as attribute values, sibling modules differing only by leading underscores, "
    "(pairs differing by a TRAILING underscore, a / a_, are generated), member names equal to sub-module names (docs, recommendations: "
    "'Griffe does not support this kind of name shadowing ... During dynamic analysis, Griffe's behavior is undefined'), any binding of the "
    "top-level package inside its own __init__ (`import pkg.x`, or the package re-exported under another name by a sub-module and imported "
    "back: a self-reference, which the inspector drops by design as a cyclic member), wildcard imports "
    "from package __init__ modules",
    "chained targets `self.<member>.<attr> = ...` in __init__ (through a nested class, method or property defined before) bind no member "
    "for either agent and are generated; "
    "names only assigned as self.x in __init__ are removed from the static side; dunder names are compared only when the source binds them",
    "parameter defaults are literals or module-level sentinels (`object()`, an instance of a local marker class); only required-ness is compared",
    "method flavour (staticmethod/classmethod/property/cached) is read from labels both agents spell identically; other labels, "
    "`async`, attribute values, annotations and line numbers are not compared",
    "docstring presence is compared as well as the value: an empty or whitespace-only literal is a docstring with value '' on both sides "
    "(CPython: __doc__ == ''), distinct from no docstring; property getter docstrings count as function docstrings",
    "base classes are compared after resolution through the loaded modules collection (Class.resolved_bases semantics): a subscripted "
    "base `Repo[int]` / `Generic[T]` counts as the subscripted class (the inspector can never report the subscript); bases outside "
    "the package (typing.Generic, typing.Protocol) are compared by the last path either tree reaches",
    "`_abc_impl`, `_is_protocol`, `_is_runtime_protocol` (written by typing/abc into Protocol classes and their subclasses) are treated "
    "like interpreter-provided dunders: ignored unless the source binds them",
]
BUDGET_S = {"quick": 75.0, "thorough": 1100.0}
SHRINK_MAX_EXAMPLES = 4000

sys.dont_write_bytecode = True

_TMP: Path | None = None
_COUNTER = itertools.count()


def _tmp_root() -> Path:
    global _TMP
    if _TMP is None or not _TMP.exists() or str(os.getpid()) not in _TMP.name.split("-"):
        base = os.environ.get("VERIF_TMP") or ("/dev/shm" if os.access("/dev/shm", os.W_OK) else "/var/tmp")
        _TMP = Path(tempfile.mkdtemp(prefix="verif-C17-", suffix=f"-{os.getpid()}", dir=base))
        import atexit

        atexit.register(shutil.rmtree, str(_TMP), True)
    return _TMP


def _purge(top: str, root: str) -> None:
    for name in list(sys.modules):
        if name == top or name.startswith(top + "."):
            del sys.modules[name]
    for key in list(sys.path_importer_cache):
        if key.startswith(root):
            del sys.path_importer_cache[key]
    importlib.invalidate_caches()


# ----------------------------------------------------------------------------- CPython facts
_KIND = {
    inspect.Parameter.POSITIONAL_ONLY: "positional-only",
    inspect.Parameter.POSITIONAL_OR_KEYWORD: "positional or keyword",
    inspect.Parameter.VAR_POSITIONAL: "variadic positional",
    inspect.Parameter.KEYWORD_ONLY: "keyword-only",
    inspect.Parameter.VAR_KEYWORD: "variadic keyword",
}
VARIADIC = ("variadic positional", "variadic keyword")


def _sig(obj) -> list:
    out = []
    for p in inspect.signature(obj).parameters.values():
        k = _KIND[p.kind]
        out.append([p.name, k, None if k in VARIADIC else p.default is inspect.Parameter.empty])
    return out


def _clean(doc) -> str | None:
    if not isinstance(doc, str):
        return None
    return inspect.cleandoc(doc.rstrip())


def cpython_facts(case: dict, top: str, root: str) -> dict[str, dict]:
    """Import the package with CPython and describe every binding: path -> fact (plain data)."""
    facts: dict[str, dict] = {}
    names = [gen.dotted(top, m["path"]) for m in case["mods"]]
    order = [top] + sorted(n for n in names if n != top)
    sys.path.insert(0, root)
    try:
        try:
            modules = {n: importlib.import_module(n) for n in order}
        except BaseException as exc:  # noqa: BLE001
            raise HarnessError(f"C17 generator produced a package CPython cannot import ({type(exc).__name__}: {exc}); files under {root}") from exc

        def scope(path: str, owner, modname: str) -> None:
            for name, raw in list(vars(owner).items()):
                fact: dict = {"none": raw is None}
                if isinstance(raw, types.ModuleType):
                    fact["what"] = "module"
                    fact["target"] = raw.__name__
                    fact["submodule"] = raw.__name__ == f"{path}.{name}"
                    fact["imported"] = not fact["submodule"]
                elif isinstance(raw, type):
                    fact["what"] = "class"
                    fact["target"] = f"{raw.__module__}.{raw.__qualname__}"
                    fact["imported"] = raw.__module__ != modname
                    fact["doc"] = _clean(raw.__dict__.get("__doc__"))
                    fact["bases"] = [f"{b.__module__}.{b.__qualname__}" for b in raw.__bases__ if b is not object]
                elif isinstance(raw, (types.FunctionType, staticmethod, classmethod)):
                    fn = raw if isinstance(raw, types.FunctionType) else raw.__func__
                    fact["what"] = "function"
                    fact["flavour"] = "plain" if isinstance(raw, types.FunctionType) else type(raw).__name__
                    fact["target"] = f"{fn.__module__}.{fn.__qualname__}"
                    fact["imported"] = fn.__module__ != modname
                    fact["doc"] = _clean(fn.__doc__)
                    fact["sig"] = _sig(fn)
                    fact["bound"] = _sig(getattr(owner, name)) if isinstance(owner, type) else fact["sig"]
                elif isinstance(raw, (property, functools.cached_property)):
                    fn = raw.fget if isinstance(raw, property) else raw.func
                    fact["what"] = "attribute"
                    fact["flavour"] = "property" if isinstance(raw, property) else "cached property"
                    fact["imported"] = False
                    fact["doc"] = _clean(fn.__doc__)
                else:
                    fact["what"] = "value"
                    fact["imported"] = False
                facts[f"{path}.{name}"] = fact
                if fact["what"] == "class" and not fact["imported"] and fact["target"] == f"{path}.{name}":
                    scope(f"{path}.{name}", raw, modname)

        for n in order:
            facts[n] = {"what": "module", "doc": _clean(modules[n].__doc__), "imported": False}
            scope(n, modules[n], n)
    finally:
        sys.path.remove(root)
        _purge(top, root)
    return facts


# ----------------------------------------------------------------------------- Griffe summaries
FLAVOURS = {"staticmethod", "classmethod", "property", "cached"}
# set by typing.Protocol / abc.ABCMeta in the namespace of every Protocol class and of every subclass of one
TYPING_SUNDERS = {"_abc_impl", "_is_protocol", "_is_runtime_protocol"}


def _doc(obj) -> str | None:
    # presence and value: None = no docstring object; "" = an empty (or whitespace-only) docstring literal, which CPython
    # keeps as `__doc__ == ""` and both agents report as a Docstring with an empty value
    d = obj.docstring
    return d.value if d is not None else None


def _flavour(labels) -> str:
    if "property" in labels:
        return "cached property" if "cached" in labels else "property"
    if "staticmethod" in labels:
        return "staticmethod"
    if "classmethod" in labels:
        return "classmethod"
    return "plain"


def _bases(cls) -> list[str]:
    from griffe import AliasResolutionError, CyclicAliasError

    # Class.resolved_bases semantics: the canonical path of the base expression (a subscript `Repo[int]` / `Generic[T]`
    # contributes the path of the subscripted class only: the inspector can never give the subscript, so it is ignored),
    # resolved through the loaded collection. A base outside the loaded package (typing.Generic) cannot be resolved on
    # either side: then the last path reached is compared.
    out = []
    for base in cls.bases:
        base_path = base if isinstance(base, str) else base.canonical_path
        try:
            target = cls.modules_collection.get_member(base_path)
        except (AliasResolutionError, CyclicAliasError, KeyError):
            out.append(f"external({base_path})")
            continue
        if target.is_alias:
            try:
                target = target.final_target
            except (AliasResolutionError, CyclicAliasError):
                out.append(f"external({_chase(target)})")
                continue
        out.append(target.path)
    return out


def _chase(alias) -> str:
    """Last target path an unresolvable alias chain reaches inside the loaded collection (e.g. `functools.cached_property`
    for `from .a import cached_property` where pkg.a did `from functools import cached_property`)."""
    from griffe import AliasResolutionError, CyclicAliasError

    seen = set()
    cur = alias
    path = alias.target_path
    while True:
        path = cur.target_path
        if path in seen:
            return f"cycle({path})"
        seen.add(path)
        try:
            cur = alias.modules_collection.get_member(path)
        except (KeyError, AliasResolutionError, CyclicAliasError):
            return path
        if not cur.is_alias:
            return cur.path


def summarize(obj) -> dict:
    """Plain-data skeleton of a Griffe module/class (recursive)."""
    from griffe import AliasResolutionError, CyclicAliasError

    members = {}
    for name, m in obj.members.items():
        if m.is_alias:
            try:
                t = m.final_target
                members[name] = {"alias": True, "tp": m.target_path, "target": t.path, "kind": t.kind.value}
            except (AliasResolutionError, CyclicAliasError):
                members[name] = {"alias": True, "tp": _chase(m), "target": None, "kind": None}
            continue
        kind = m.kind.value
        e: dict = {"alias": False, "kind": kind}
        if kind in ("module", "class"):
            e.update(summarize(m))
        elif kind == "function":
            e["doc"] = _doc(m)
            e["flavour"] = _flavour(m.labels)
            e["params"] = [[p.name, p.kind.value if p.kind else None, None if p.kind and p.kind.value in VARIADIC else p.default is None] for p in m.parameters]
        else:
            e["flavour"] = _flavour(m.labels)
            e["doc"] = _doc(m) if e["flavour"] != "plain" else None
        members[name] = e
    out = {"doc": _doc(obj), "members": members}
    if obj.kind.value == "class":
        out["bases"] = _bases(obj)
    return out


# ----------------------------------------------------------------------------- comparison
def _sig_diff(got: list, want: list) -> str | None:
    if len(got) != len(want):
        return "count"
    for g, w in zip(got, want):
        if g[0] != w[0]:
            return "name"
        if g[1] != w[1]:
            return f"kind:{w[1]}->{g[1]}"
        if w[1] not in VARIADIC and g[2] != w[2]:
            return "required"
    return None


def _fmt_sig(sig: list | None) -> str:
    if sig is None:
        return "?"
    return "(" + ", ".join(f"{n}[{k}{'' if r is None else ',required' if r else ',optional'}]" for n, k, r in sig) + ")"


def compare(path: str, s: dict, d: dict, scope_kind: str, src: dict, cpy: dict, fails: list[Fail]) -> None:
    """Compare one nesting level (module or class at `path`)."""
    sf = src.get(path, {"defined": set(), "init_only": set()})
    # docstring of the scope itself
    if s["doc"] != d["doc"]:
        ref = cpy.get(path, {}).get("doc")
        who = "dynamic" if s["doc"] == ref else "static" if d["doc"] == ref else "both"
        fails.append(Fail("docstring", f"{scope_kind}:{who}-differs-from-cpython", f"{path}: docstring static={s['doc']!r} dynamic={d['doc']!r} cpython(cleandoc(rstrip))={ref!r}"))
    if scope_kind == "class" and s.get("bases") != d.get("bases"):
        fails.append(Fail("bases", "differ", f"{path}: resolved bases static={s.get('bases')} dynamic={d.get('bases')} cpython={cpy.get(path, {}).get('bases')}"))

    def relevant(names, side):
        out = set()
        for n in names:
            if (gen.is_dunder(n) or n in TYPING_SUNDERS) and n not in sf["defined"]:
                continue  # interpreter-provided dunder (or the typing/abc bookkeeping of Protocol classes and their subclasses)
            if side == "static" and n in sf["init_only"]:
                continue  # instance attribute assigned in __init__
            out.add(n)
        return out

    sm, dm = s["members"], d["members"]
    sn, dn = relevant(sm, "static"), relevant(dm, "dynamic")
    cls_name = path.rsplit(".", 1)[-1].lstrip("_")
    for n in sorted(sn - dn):
        e = sm[n]
        mangled = f"_{cls_name}{n}"
        if scope_kind == "class" and gen.is_mangled(n) and mangled in dn:
            fails.append(Fail("names", "class-private-name-mangled", f"{path}: static member {n!r} is {mangled!r} in the inspected tree (CPython name mangling)"))
            dn.discard(mangled)
            continue
        fact = cpy.get(f"{path}.{n}", {})
        what = "alias" if e["alias"] else e["kind"]
        feat = "=None" if fact.get("none") else ""
        fails.append(Fail("names", f"only-static:{what}{feat}", f"{path}: member {n!r} ({what}{feat}) exists in the static tree, missing from the inspected tree; cpython has {fact.get('what')}"))
    for n in sorted(dn - sn):
        e = dm[n]
        what = "alias" if e["alias"] else e["kind"]
        fact = cpy.get(f"{path}.{n}", {})
        fails.append(Fail("names", f"only-dynamic:{what}", f"{path}: member {n!r} ({what}) exists in the inspected tree, missing from the static tree; cpython has {fact.get('what')}"))

    for n in sorted(sn & dn):
        es, ed = sm[n], dm[n]
        p = f"{path}.{n}"
        fact = cpy.get(p, {})
        what = fact.get("what")
        if what in ("class", "function", "module") and fact.get("imported"):
            # imported class/function/module: alias on both sides, same final target
            bad = False
            for side, e in (("static", es), ("dynamic", ed)):
                if not e["alias"]:
                    fails.append(Fail("alias", f"not-alias-{side}:{what}", f"{p}: imported {what} (defined at {fact.get('target')}) is a {e['kind']}, not an alias, in the {side} tree"))
                    bad = True
            if bad:
                continue
            ts = es["target"] or "unresolved->" + es["tp"]
            td = ed["target"] or "unresolved->" + ed["tp"]
            if ts != td:
                fails.append(Fail("alias", f"target:{what}", f"{p}: imported {what}: static alias reaches {ts}, dynamic alias reaches {td}; cpython object is {fact.get('target')}"))
            continue
        if es["alias"] or ed["alias"]:
            if es["alias"] and ed["alias"]:
                ts = es["target"] or "unresolved->" + es["tp"]
                td = ed["target"] or "unresolved->" + ed["tp"]
                if ts != td:
                    fails.append(Fail("alias", "target:other", f"{p}: static alias reaches {ts}, dynamic alias reaches {td}"))
                continue
            # origin of an imported plain value: tolerated (alias on one side, attribute on the other)
            ea, eo = (es, ed) if es["alias"] else (ed, es)
            if what == "value" and eo["kind"] == "attribute" and ea["kind"] in ("attribute", None):
                continue
            side = "static" if es["alias"] else "dynamic"
            fails.append(Fail("kinds", f"alias-vs-{eo['kind']}", f"{p}: alias (-> {ea['tp']}) in the {side} tree but {eo['kind']} in the other; cpython has {what}"))
            continue
        if es["kind"] != ed["kind"]:
            fails.append(Fail("kinds", f"{es['kind']}!={ed['kind']}", f"{p}: static kind {es['kind']}, dynamic kind {ed['kind']}; cpython has {what}"))
            continue
        kind = es["kind"]
        if kind in ("module", "class"):
            compare(p, es, ed, kind, src, cpy, fails)
            continue
        if es["flavour"] != ed["flavour"]:
            fails.append(Fail("flavour", f"{es['flavour']}!={ed['flavour']}", f"{p}: static flavour {es['flavour']!r}, dynamic flavour {ed['flavour']!r}; cpython has {fact.get('flavour')}"))
        if kind == "function" or es["flavour"] != "plain":
            if es["doc"] != ed["doc"]:
                ref = fact.get("doc")
                who = "dynamic" if es["doc"] == ref else "static" if ed["doc"] == ref else "both"
                fails.append(Fail("docstring", f"function:{who}-differs-from-cpython", f"{p}: docstring static={es['doc']!r} dynamic={ed['doc']!r} cpython(cleandoc(rstrip))={ref!r}"))
        if kind == "function" and what == "function":
            diff = _sig_diff(es["params"], fact["sig"])
            if diff:
                fails.append(Fail("signature-static", diff, f"{p}: static parameters {_fmt_sig(es['params'])} != inspect.signature {_fmt_sig(fact['sig'])}"))
            diff = _sig_diff(ed["params"], fact["sig"])
            if diff and _sig_diff(ed["params"], fact["bound"]):
                fails.append(
                    Fail("signature-dynamic", diff, f"{p}: dynamic parameters {_fmt_sig(ed['params'])} equal neither inspect.signature of the function {_fmt_sig(fact['sig'])} nor the bound view {_fmt_sig(fact['bound'])}")
                )


# ----------------------------------------------------------------------------- entry points
def check_case(case) -> list[Fail]:
    import griffe

    top = "c17_" + digest(case)[:12]
    root = _tmp_root() / f"n{next(_COUNTER)}"
    files = gen.render(case, top)
    for rel, text in files.items():
        f = root / rel
        f.parent.mkdir(parents=True, exist_ok=True)
        f.write_text(text, encoding="utf8")
    sroot = str(root)
    fails: list[Fail] = []
    try:
        cpy = cpython_facts(case, top, sroot)
        src = gen.source_facts(case, top)
        saved_path = list(sys.path)
        try:
            static = call("total", griffe.load, top, search_paths=[sroot], allow_inspection=False, what="static load")
            ssum = call("total", summarize, static, what="summary of the static tree")
            dynamic = call("total", griffe.load, top, search_paths=[sroot], force_inspection=True, what="load with force_inspection")
            dsum = call("total", summarize, dynamic, what="summary of the inspected tree")
        finally:
            sys.path[:] = saved_path
            _purge(top, sroot)
        compare(top, ssum, dsum, "module", src, cpy, fails)
    finally:
        shutil.rmtree(root, ignore_errors=True)
        linecache.clearcache()
    # one failure per (bucket): keep messages short, render the package name neutrally
    seen = set()
    out = []
    for f in fails:
        if f.bucket in seen:
            continue
        seen.add(f.bucket)
        f.message = f.message.replace(top, "pkg")
        out.append(f)
    return out


def _feats(known) -> dict:
    # known finding "class-private-name-mangling": steer the generator away from `__x` names in class bodies
    return {"mangled": "class-private-name-mangling" not in known}


def strategy(ctx):
    global _TMP
    _TMP = ctx.tmp  # also in the runner's shrink worker, which calls ctx.cleanup() afterwards
    return gen.cases(_feats(ctx.known))


def _is_name_mangling(case, fail: Fail) -> bool:
    """Known finding: the only difference reported is static `__x` vs inspected `_Class__x` for a class-private name the
    source binds in a class body (the bucket is produced by exactly that comparison; any other missing/extra name has
    another bucket and stays a violation)."""
    if fail.bucket != "names/class-private-name-mangled":
        return False

    def has_private(items, in_class):
        for it in items:
            if in_class and it["t"] in ("attr", "func") and gen.is_mangled(it["name"]):
                return True
            if it["t"] == "class" and has_private(it["body"], True):
                return True
        return False

    return any(has_private(m["body"], False) for m in case["mods"])


KNOWN = {"class-private-name-mangling": _is_name_mangling}


def run_shard(ctx) -> None:
    global _TMP
    _TMP = ctx.tmp  # removed by the runner
    gen.STEERED.clear()
    ctx.run_hypothesis(strategy(ctx), check_case, ctx.scale(450, 9000), describe=gen.describe)
    for slug, count in gen.STEERED.items():
        ctx.excluded(slug, count)
