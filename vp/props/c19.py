"""C19 — Merging stubs loses nothing and prefers stub types.

Domain: generated (runtime module, stubs) pairs (vp/gen/c19_pairs.py) over a pool of 8 member names — functions,
attributes, classes nested two deep, aliases on either side, docstrings on either side, overload groups in the stubs,
kind mismatches — written to disk in one of five placements and loaded with `griffe.load(..., allow_inspection=False)`
in both discovery orders (directory listing order injected as in C14; for `-stubs` packages also both search-path
orders).
Oracle: a reference merge table written from the property statement (`c19_pairs.expected`).

Placements
    sibling     p/__init__.py, p/m.py + p/m.pyi                       merged module p.m     (implicit merge in set_member)
    subpackage  p/__init__.py, p/s/__init__.py + p/s/__init__.pyi     merged module p.s     (implicit merge in set_member)
    package     p/__init__.py + p/__init__.pyi                        merged module p       (_load_package)
    stubs-pkg   sp0/p/{__init__.py, m.py}, sp1/p-stubs/{__init__.pyi, m.pyi}, find_stubs_package=True   -> p.m
    top-module  p.py + p.pyi in a search path                         merged module p       (_load_package)
Every package placement additionally holds the same pair two levels down (p/sub/deep.py + deep.pyi; for stubs-pkg
p-stubs/sub/__init__.pyi + p-stubs/sub/deep.pyi): its merged module p.sub.deep is judged the same way ("nested:" kinds),
and once more below a sub-package whose __init__ exists only as a stub (p/ext/__init__.pyi + impl.py + impl.pyi -> p.ext.impl).

Clauses (Fail.clause)
    total            loading/merging raised (any exception)
    keeps-runtime    a runtime member is missing, changed kind, lost its parameters / defaults / value
    stub-types       parameter / return / attribute annotation or overload list is not the stubs' (same-kind pairs),
                     or a member of another kind was touched
    docstring        runtime docstring not kept, or stub docstring not used when the runtime one is missing
    stub-only        stub-only member missing or not marked runtime=False; unexpected extra member
    no-alias-resolved an alias is resolved after loading without resolve_aliases
    request-independent the merged modules after load("p.m") / load("p.m.f") / load("p.sub.deep") differ from those after load("p")
    order-independent the merged module differs between the two discovery orders, or between
                     griffe.merge_stubs(runtime, stubs) and griffe.merge_stubs(stubs, runtime)
"""

from __future__ import annotations

from pathlib import Path

from vp.common.bootstrap import HarnessError
from vp.common.harness import Fail, GriffeRaised, call
from vp.gen import c14_fs as fs
from vp.gen import c19_pairs as gp

ID = "C19"
LEVEL = "exploration"
RULE = (
    "Hypothesis-built (runtime module, stubs) pairs over 8 member names (functions with <=3 parameters, attributes, classes nested <=2, "
    "classes deriving from a sibling class whose stubs declare overloads/annotations for an inherited-only method, aliases to an external or an internal module on either side, docstrings on either side, overload groups of 2-3 signatures in the "
    "stubs with or without plain definition, kind mismatches), rendered into one of 5 placements (sibling .pyi, __init__.pyi of a "
    "sub-package, __init__.pyi of the top package, separate -stubs package, top-level module) and loaded in both discovery orders; the "
    "merged module is compared field by field with a reference merge table. non-trivial = >=2 names present on both sides with at "
    "least one kind mismatch or alias among them; distinct = distinct (pair, placement) digest"
)
ASSUMPTIONS = [
    "the reference merge table (vp/gen/c19_pairs.py: expected) is a second reading of the property statement: result names = runtime | stub-only; "
    "same-kind pairs take parameter annotations (by name), return/attribute annotations and the overload list from the stubs, keep the runtime "
    "docstring unless missing, keep runtime parameters, defaults and values; other pairs leave the runtime member untouched",
    "'takes … annotations from the stubs' is read literally: for a same-kind pair the merged parameter (by name, when the stub function has that "
    "parameter), return (when the stubs give a plain definition) and attribute annotations ARE the stubs', also when the stubs declare none "
    "(stubs are authoritative for what they declare - 'prefers stub types'; the merger applies this uniformly to all three fields)",
    "an overload group of the stubs without plain definition is generated only for names the runtime container defines (Griffe's stub module has "
    "no member for a bare overload group, so it is not a 'stub-only member'); the `from typing import overload` of the stubs is an ordinary stub-only alias",
    "only the runtime flag of the stub-only member itself is demanded (not of members nested inside a stub-only class)",
    "runtime modules define each name once; a runtime function may declare its own @overload list (then the stubs' list, when they give one, "
    "replaces it); attributes inside classes may be spelled as properties on either side (both are attributes for Griffe: same-kind pair); "
    "annotations are bare names (expression rendering is C03's subject)",
    "loading is static (allow_inspection=False) and without resolve_aliases; discovery order is injected by wrapping os.walk / Path.iterdir "
    "(sorted lists m.py before m.pyi, reversed the other way round) and, for -stubs packages, by swapping the two search paths",
    "wildcard-provided members come from p/_impl.py (no __all__, public names, functions/attributes/flat classes) and are disjoint from the "
    "module's own names; the alias created by the expansion is expected resolved (that is the expansion's doing, not the merger's)",
    "explicit re-exports over 2-3 alias hops (module -> _api [-> _api2] -> _core) are generated only for modules whose stubs are merged after "
    "the whole package is loaded; for them `resolved` is not judged (the merger dereferences the chain by design: listed finding), the object "
    "at the end of the chain must be merged like any runtime member whenever the stubs define that name",
    "internal aliases point to functions of p/other.py (loaded as part of the package); external aliases to a package that is not on the search path",
]
BUDGET_S = {"quick": 70.0, "thorough": 1100.0}
SHRINK_MAX_EXAMPLES = 4000

TOP = "p"
PLACEMENTS = ("sibling", "subpackage", "package", "stubs-pkg", "top-module")
_TMP_BASE: list = [None]

CLAUSE_OF = {
    "member-lost:runtime": "keeps-runtime",
    "member-lost:stub-only": "stub-only",
    "member-unexpected": "stub-only",
    "kind": "keeps-runtime",
    "parameters": "keeps-runtime",
    "parameter-default": "keeps-runtime",
    "value": "keeps-runtime",
    "alias-target": "keeps-runtime",
    "bases": "keeps-runtime",
    "parameter-annotation": "stub-types",
    "return-annotation": "stub-types",
    "attribute-annotation": "stub-types",
    "overloads": "stub-types",
    "docstring": "docstring",
    "runtime-flag": "stub-only",
    "alias-resolved": "no-alias-resolved",
}


def layout_for(case) -> tuple[dict, dict]:
    """(layout for c14_fs.materialise, load options) of a case."""
    pair, placement = case["pair"], case["placement"]
    # wildcard-provided members (pair["W"], defined in p/_impl.py, imported with `from p._impl import *`):
    # case["wild"] says which runtime modules get the import: "all", or only those whose stubs are merged by
    # _load_package after wildcard expansion ("load-package": top __init__ with __init__.pyi, -stubs packages)
    wild = case.get("wild") if pair.get("W") and placement != "top-module" else None
    wild_primary = wild == "all" or (wild == "load-package" and placement in ("package", "stubs-pkg"))
    wild_deep = wild == "all" or (wild == "load-package" and placement == "stubs-pkg")
    imports = gp.runtime_import_lines(pair, TOP)
    r = gp.render_module(pair["R"], "R", TOP, wildcard=imports if wild_primary else False)
    r_deep = gp.render_module(pair["R"], "R", TOP, wildcard=imports if wild_deep else False)
    s = gp.render_module(pair["S"], "S", TOP)
    common = {f"{gp.OTHER}.py": gp.render_other()}
    if wild_primary or wild_deep:
        common[f"{gp.IMPL}.py"] = gp.render_impl(pair, TOP)
        common.update(gp.render_reexports(pair, TOP))
    opts = {"deep": True, "wild_primary": wild_primary, "wild_deep": wild_deep}
    # every package placement also holds the same pair two levels down: p/sub/deep.py + deep.pyi (for the -stubs
    # placement the stubs are p-stubs/sub/deep.pyi below a stub-only sub-package p-stubs/sub/__init__.pyi)
    deep = {"__init__.py": "", "deep.py": r_deep, "deep.pyi": s}
    # ... and once more inside a sub-package whose __init__ exists only as a stub: p/ext/__init__.pyi + impl.py + impl.pyi
    wild_ext = wild == "all"
    common["ext"] = {"__init__.pyi": "", "impl.py": gp.render_module(pair["R"], "R", TOP, wildcard=imports if wild_ext else False), "impl.pyi": s}
    opts["wild_ext"] = wild_ext
    if placement == "sibling":
        paths = [{TOP: {"__init__.py": "", "m.py": r, "m.pyi": s, **common, "sub": deep}}]
        return {"paths": paths, "extra": None, "pth": None}, {**opts, "target": "m"}
    if placement == "subpackage":
        paths = [{TOP: {"__init__.py": "", "s": {"__init__.py": r, "__init__.pyi": s}, **common, "sub": deep}}]
        return {"paths": paths, "extra": None, "pth": None}, {**opts, "target": "s"}
    if placement == "package":
        paths = [{TOP: {"__init__.py": r, "__init__.pyi": s, **common, "sub": deep}}]
        return {"paths": paths, "extra": None, "pth": None}, {**opts, "target": None}
    if placement == "stubs-pkg":
        paths = [
            {TOP: {"__init__.py": "", "m.py": r, **common, "sub": {"__init__.py": "", "deep.py": r_deep}}},
            {f"{TOP}-stubs": {"__init__.pyi": "", "m.pyi": s, "sub": {"__init__.pyi": "", "deep.pyi": s}}},
        ]
        return {"paths": paths, "extra": None, "pth": None}, {**opts, "target": "m", "find_stubs_package": True}
    if placement == "top-module":
        paths = [{f"{TOP}.py": r, f"{TOP}.pyi": s}]
        return {"paths": paths, "extra": None, "pth": None}, {"target": None, "deep": False, "wild_primary": False, "wild_deep": False, "wild_ext": False}
    raise HarnessError(f"unknown placement {placement}")


MISSING = {"doc": None, "members": {}, "missing": True}


def _observe(top, target: str | None, with_deep: bool) -> dict:
    """Observation of the merged module `target` below the loaded top module, plus (package placements) of the
    nested pair p.sub.deep under the key "deep"."""

    def find(mod, dotted):
        for name in dotted.split("."):
            if mod.is_alias or name not in mod.members:
                return None
            mod = mod.members[name]
        return None if mod.is_alias or mod.kind.value != "module" else mod

    mod = top if target is None else find(top, target)
    if mod is None or mod.is_alias or mod.kind.value != "module":
        obs = dict(MISSING)
    else:
        obs = gp.observe(mod, skip=(gp.OTHER, gp.IMPL, gp.API, gp.API2, gp.CORE, "m", "s", "sub", "ext") if target is None else ())
        obs["file"] = _suffix(mod)
    if with_deep:
        d = find(top, "sub.deep")
        if d is None:
            obs["deep"] = dict(MISSING)
        else:
            obs["deep"] = gp.observe(d)
            obs["deep"]["file"] = _suffix(d)
        e = find(top, "ext.impl")
        if e is None:
            obs["ext"] = dict(MISSING)
        else:
            obs["ext"] = gp.observe(e)
            obs["ext"]["file"] = _suffix(e)
    return obs


def load_merged(paths: list[Path], opts: dict, order, request: str = TOP) -> dict:
    import griffe

    loader = griffe.GriffeLoader(search_paths=list(paths), allow_inspection=False)
    with fs.listing_order(order):
        call(
            "total",
            loader.load,
            request,
            find_stubs_package=bool(opts.get("find_stubs_package")),
            what=f"load({request!r}) with stubs, discovery order {order!r}",
        )
    top = loader.modules_collection.members.get(TOP)
    if top is None or top.is_alias:
        return dict(MISSING)
    return _observe(top, opts["target"], opts.get("deep", False))


def merge_directly(pair: dict, root: Path, who_first: str) -> dict:
    """Visit the two sources separately and hand them to griffe.merge_stubs in the given argument order."""
    import griffe

    r_mod = call("total", griffe.visit, "m", filepath=root / "direct" / "m.py", code=gp.render_module(pair["R"], "R", TOP), what="visit of the runtime module")
    s_mod = call("total", griffe.visit, "m", filepath=root / "direct" / "m.pyi", code=gp.render_module(pair["S"], "S", TOP), what="visit of the stubs")
    args = (r_mod, s_mod) if who_first == "runtime" else (s_mod, r_mod)
    merged = call("total", griffe.merge_stubs, *args, what=f"merge_stubs with the {who_first} module first")
    obs = gp.observe(merged)
    obs["file"] = Path(merged._filepath).suffix if merged._filepath is not None and not isinstance(merged._filepath, list) else None
    return obs


def _suffix(mod) -> str | None:
    return Path(mod._filepath).suffix if mod._filepath is not None and not isinstance(mod._filepath, list) else None


def merge_by_set_member(pair: dict, root: Path, who_first: str) -> dict:
    """Producer API: visit the two sources as children of one parent package and `set_member` them one after the
    other ("when reassigning a module to an existing one, try to merge them as one regular and one stubs module")."""
    import griffe

    collection = griffe.ModulesCollection()
    lines = griffe.LinesCollection()
    parent = griffe.Module(TOP, filepath=root / "direct" / TOP / "__init__.py", modules_collection=collection, lines_collection=lines)
    collection.set_member(TOP, parent)
    for side in ("RS" if who_first == "runtime" else "SR"):
        mod = call(
            "total",
            griffe.visit,
            "m",
            filepath=root / "direct" / TOP / ("m.py" if side == "R" else "m.pyi"),
            code=gp.render_module(pair[side], side, TOP),
            parent=parent,
            modules_collection=collection,
            lines_collection=lines,
            what=f"visit of the {'runtime module' if side == 'R' else 'stubs'}",
        )
        call("total", parent.set_member, "m", mod, what=f"set_member of the {'runtime' if side == 'R' else 'stubs'} module ({who_first} module first)")
    merged = parent.members["m"]
    if merged.is_alias or merged.kind.value != "module":
        return {"doc": None, "members": {}, "missing": True}
    obs = gp.observe(merged)
    obs["file"] = _suffix(merged)
    return obs


def load_in_two_steps(paths: list[Path], opts: dict) -> dict:
    """One loader, two loads: first only the `-stubs` distribution is on the search paths (it is loaded as the package
    itself), then the regular package's search path is appended and the package is loaded again."""
    import griffe

    runtime_sp, stubs_sp = paths
    loader = griffe.GriffeLoader(search_paths=[stubs_sp], allow_inspection=False)
    call("total", loader.load, TOP, try_relative_path=False, find_stubs_package=True, what="first load (only the -stubs package visible)")
    loader.finder.append_search_path(runtime_sp)
    call("total", loader.load, TOP, try_relative_path=False, what="second load (regular package now visible)")
    top = loader.modules_collection.members[TOP]
    if top.is_alias:
        return dict(MISSING)
    return _observe(top, opts["target"], True)


def check_case(case) -> list[Fail]:
    pair, placement = case["pair"], case["placement"]
    if Path(TOP).exists() or Path(f"{TOP}.py").exists():
        raise HarnessError(f"{TOP} exists relative to the working directory")
    if placement == "top-module" and _uses_internal_alias(pair):
        raise HarnessError("internal alias in a top-module case")
    layout, opts = layout_for(case)
    def expectation(wildcard: bool):
        alone = {"R": pair["R"], "S": {"doc": False, "members": []}, "W": pair.get("W", [])}
        return gp.expected(pair, wildcard=wildcard, top=TOP), gp.expected(alone, wildcard=wildcard, top=TOP)

    plain = expectation(False)
    exp_primary = expectation(True) if opts["wild_primary"] else plain
    exp_deep = expectation(True) if opts["wild_deep"] else plain
    exp_ext = expectation(True) if opts["wild_ext"] else plain
    fails: list[Fail] = []
    seen: set = set()

    def judge(obs: dict, how: str, exps=None, nested: str = "") -> None:
        if obs.get("deep") is not None:
            judge(obs["deep"], how + ", nested pair p.sub.deep", exps=exp_deep, nested="nested:")
        if obs.get("ext") is not None:
            judge(obs["ext"], how + ", pair p.ext.impl below the stub-only sub-package p/ext/__init__.pyi", exps=exp_ext, nested="nested:")
        before = len(fails)
        _judge(obs, how, *(exps or exp_primary))
        if nested:
            for f in fails[before:]:
                f.kind = nested + f.kind

    def _judge(obs: dict, how: str, exp: dict, exp_runtime_alone: dict) -> None:
        if obs.get("missing"):
            fails.append(Fail("keeps-runtime", "module-missing", f"[{placement}, {how}] the merged module is not in the loaded tree"))
            return
        if obs.get("file") != ".py":
            # everything else would be a consequence: report the root symptom only
            fails.append(Fail("keeps-runtime", "result-is-not-the-runtime-module", f"[{placement}, {how}] the merged module's file is {obs.get('file')!r}, expected the .py file (its members: {sorted(obs['members'])})"))
            return
        diffs = gp.compare(exp, obs)
        if diffs and not gp.compare(exp_runtime_alone, obs):
            fails.append(Fail("stub-types", "stubs-not-merged-at-all", f"[{placement}, {how}] the module equals the runtime module alone, nothing of the stubs was merged (first difference: {diffs[0][2]})"))
            return
        for kind, path, message in diffs:
            head = kind.split(":")
            clause = CLAUSE_OF.get(":".join(head[:2])) or CLAUSE_OF[head[0]]
            if (clause, kind) in seen:
                continue
            seen.add((clause, kind))
            fails.append(Fail(clause, kind, f"[{placement}, {how}] {message}", {"path": path}))

    with fs.case_dir(_TMP_BASE[0]) as root:
        paths = fs.materialise(layout, root)
        runs = [("sorted", paths), ("reversed", paths)]
        if placement == "stubs-pkg":
            runs += [("sorted", paths[::-1]), ("reversed", paths[::-1])]
        first = None
        for order, sp in runs:
            how = f"listing {order}" + (", stubs path first" if sp is not paths and sp != paths else "")
            try:
                obs = load_merged(sp, opts, order)
            except GriffeRaised as gr:
                if gr.fail.bucket not in {f.bucket for f in fails}:
                    fails.append(gr.fail)
                continue
            if first is None:
                first = obs
                judge(obs, how)
            elif obs != first:
                if obs.get("missing") or first.get("missing") or obs.get("file") != first.get("file"):
                    kind, what = "module-file", f"file {first.get('file')!r} vs {obs.get('file')!r}"
                else:
                    diffs = gp.compare(first, obs)
                    only_resolved = bool(diffs) and all(d[0] == "alias-resolved" for d in diffs)
                    kind = "alias-resolved" if only_resolved else "members"
                    what = "; ".join(d[2] for d in diffs[:3])
                fails.append(Fail("order-independent", kind, f"[{placement}] merged module differs between discovery order 'listing sorted' and '{how}': {what}"))
                judge(obs, how)
        # the same package requested by the dotted path of a sub-module or member: the whole package is loaded all
        # the same, so the merged modules must equal those obtained by requesting the top-level name
        if first is not None:
            names = [m["n"] for m in pair["R"]["members"]]
            t = opts["target"]
            dotted = [f"{TOP}.{t}"] if t else []
            if names:
                dotted.append(f"{TOP}.{t}.{names[0]}" if t else f"{TOP}.{names[0]}")
            if opts.get("deep"):
                dotted += [f"{TOP}.sub.deep", f"{TOP}.sub"]
            if dotted:
                request = dotted[case.get("req", 0) % len(dotted)]
                try:
                    obs = load_merged(paths, opts, "sorted", request=request)
                except GriffeRaised as gr:
                    obs = None
                    if gr.fail.bucket not in {f.bucket for f in fails}:
                        fails.append(gr.fail)
                if obs is not None and obs != first:
                    fails.append(Fail("request-independent", "dotted-request", f"[{placement}] merged modules after load({request!r}) differ from those after load({TOP!r})"))
                    judge(obs, f"requested as {request!r}")
        # the merger itself, called with the two modules in either argument order (public griffe.merge_stubs):
        # the loader may or may not normalise the order in which it meets the two files, the merger must not care
        direct_first = None
        for who_first in ("runtime", "stubs"):
            try:
                obs = merge_directly(pair, root, who_first)
            except GriffeRaised as gr:
                if gr.fail.bucket not in {f.bucket for f in fails}:
                    fails.append(gr.fail)
                continue
            judge(obs, f"merge_stubs called with the {who_first} module first", exps=plain)
            if direct_first is None:
                direct_first = obs
            elif obs != direct_first:
                diffs = gp.compare(direct_first, obs) if obs.get("file") == direct_first.get("file") else []
                what = "; ".join(d[2] for d in diffs[:3]) or f"file {direct_first.get('file')!r} vs {obs.get('file')!r}"
                fails.append(Fail("order-independent", "merge_stubs-argument-order", f"merge_stubs(runtime, stubs) and merge_stubs(stubs, runtime) differ: {what}"))
        # the producer API (implicit merge in set_member), both arrival orders; and, for -stubs packages, the
        # two-step loader sequence in which the stubs are already in the collection when the regular package arrives
        routes = [(f"set_member, {w} module first", lambda w=w: merge_by_set_member(pair, root, w)) for w in ("runtime", "stubs")]
        if placement == "stubs-pkg" and not (opts["wild_primary"] or opts["wild_deep"]):
            # (with wildcard-provided members the second load merges m.py into the stubs already in place before any
            # wildcard is expanded: that is the in-package situation of the listed finding, not generated here)
            routes.append(("two-step load, stubs package first", lambda: load_in_two_steps(paths, opts)))
        reference = None
        for how, route in routes:
            try:
                obs = route()
            except GriffeRaised as gr:
                if gr.fail.bucket not in {f.bucket for f in fails}:
                    fails.append(gr.fail)
                continue
            judge(obs, how, exps=None if how.startswith("two-step") else plain)
            if reference is None:
                reference = obs
            elif obs != reference and how.startswith("set_member"):
                diffs = gp.compare(reference, obs) if obs.get("file") == reference.get("file") and not obs.get("missing") else []
                what = "; ".join(d[2] for d in diffs[:3]) or f"file {reference.get('file')!r} vs {obs.get('file')!r}"
                fails.append(Fail("order-independent", "set_member-arrival-order", f"set_member(runtime) then set_member(stubs) differs from the opposite order: {what}"))
    return fails


def _uses_internal_alias(pair) -> bool:
    def rec(ms):
        return any((m["k"] == "alias" and m["t"] == "int") or (m["k"] == "class" and rec(m["members"])) for m in ms)

    return rec(pair["R"]["members"]) or rec(pair["S"]["members"])


def _describe(case):
    lab = gp.labels(case["pair"])
    overlap2 = any(x in lab for x in ("overlap:2", "overlap:3+"))
    special = any(x.startswith(("kind-mismatch", "alias-in")) for x in lab)
    key = [case["pair"], case["placement"]] if overlap2 and special else None
    sample = case if key is not None and "overloads-for-runtime-function" in lab else None
    return key, sorted(lab) + [f"placement:{case['placement']}"], sample


# ----------------------------------------------------------------------------------------------- known findings
INTERNAL_ALIAS = "merge-resolves-internal-alias"


def _known_internal_alias(case, fail) -> bool:
    """A runtime alias to an object of the package itself whose name the stubs define as a non-alias member: the
    merger dereferences the alias (to merge into its target), which resolves it when the target module happens to be
    loaded already. Attributed only to `alias-resolved` failures on exactly such a member."""
    if fail.bucket not in ("no-alias-resolved/alias-resolved", "no-alias-resolved/nested:alias-resolved", "order-independent/alias-resolved"):
        return False
    hits = {".".join(p) for p in gp.internal_alias_collisions(case["pair"])}
    if not hits:
        return False
    if fail.clause == "order-independent":
        return True
    path = (fail.detail or {}).get("path") if isinstance(fail.detail, dict) else None
    return path in hits


WILDCARD = "in-package-stubs-vs-wildcard-members"


def _known_wildcard(case, fail) -> bool:
    """Stubs merged while the package is being loaded (sibling m.pyi, sub-package __init__.pyi) meet the runtime module
    before its wildcard imports are expanded: a name the module only gets through `from p._impl import *` does not exist
    yet, the stub object is added as stub-only (runtime=False) and then blocks the expansion. Attributed only for
    failures about such a wildcard-provided name in a module whose stubs are merged that way."""
    if case.get("wild") != "all" or not isinstance(fail.detail, dict):
        return False
    s_names = {m["n"] for m in case["pair"]["S"]["members"]}
    hit = {w["n"] for w in case["pair"].get("W", []) if w["n"] in s_names}
    first = str(fail.detail.get("path", "")).replace("->", ".").split(".")[0]
    if first not in hit:
        return False
    nested = "nested:" in fail.kind
    return (nested and case["placement"] != "stubs-pkg") or (not nested and case["placement"] in ("sibling", "subpackage"))


THROUGH_ALIAS = "stub-only-members-through-alias-lost"


def _known_through_alias(case, fail) -> bool:
    """Stubs merged into a class the runtime module only has as an alias (here: through its wildcard import): members
    the stubs add to that class are set on the Alias object, whose `members` is a throw-away dictionary, and vanish.
    Attributed only for a lost stub-only member of exactly such a class."""
    if "member-lost:stub-only" not in fail.kind or not isinstance(fail.detail, dict):
        return False
    hits = {f"{cls}->.{name}" for cls, name in gp.stub_only_in_wildcard_classes(case["pair"])}
    return fail.detail.get("path") in hits


KNOWN = {INTERNAL_ALIAS: _known_internal_alias, WILDCARD: _known_wildcard, THROUGH_ALIAS: _known_through_alias}


def strategy(ctx):
    from hypothesis import strategies as st

    def steer(case):
        if INTERNAL_ALIAS in ctx.known:
            case["pair"], case["steered"] = gp.steer_internal_aliases(case["pair"])
        case["wild"] = "load-package" if WILDCARD in ctx.known else "all"
        if THROUGH_ALIAS in ctx.known:
            case["pair"], case["steered_through_alias"] = gp.steer_stub_only_in_wildcard_classes(case["pair"])
        return case

    @st.composite
    def cases(draw):
        placement = draw(st.sampled_from(["sibling", "sibling", "subpackage", "subpackage", "package", "package", "stubs-pkg", "stubs-pkg", "top-module"]))
        pair = draw(gp.pairs(TOP, internal_aliases=placement != "top-module"))
        return steer({"pair": pair, "placement": placement, "req": draw(st.integers(0, 5))})

    return cases()


def run_shard(ctx) -> None:
    _TMP_BASE[0] = ctx.tmp

    def describe(case):
        if case.get("steered"):
            ctx.excluded(INTERNAL_ALIAS, case["steered"])
        if case.get("steered_through_alias"):
            ctx.excluded(THROUGH_ALIAS, case["steered_through_alias"])
        if case.get("wild") == "load-package" and case["pair"].get("W") and case["placement"] != "top-module":
            ctx.excluded(WILDCARD, 1 if case["placement"] == "stubs-pkg" else 2 if case["placement"] == "package" else 3)
        return _describe(case)

    ctx.run_hypothesis(strategy(ctx), check_case, max_examples=ctx.scale(600, 25000), describe=describe)
