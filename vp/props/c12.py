"""C12 — Docstring parsers are total and terminating on arbitrary text.

Domain: "fragment soup" texts (vp/gen/c12_soup.py) x every style x every Boolean option combination
(2^8 Google + 2^3 Numpy + 2^1 Sphinx = 266 parses per text) x 34 parent templates (none, module, class, subclass,
functions with all parameter kinds and tuple/Iterator/Generator returns as expressions, as string annotations and as plain
`str`, `__init__` in a class, method, property attributes, annotated/un-annotated attributes, built-in module (no filepath)
and its members). Thorough tier adds an Atheris coverage-guided target (vp/fuzz/c12_atheris.py) with the same oracle.

Oracle (clauses):
  total            the parse returns without raising
  terminates       the parse returns (CPU-time guard only classifies "inconclusive"; a hang is claimed only after the
                   same single parse exceeds a 100x larger CPU budget alone in a fresh process)
  well-formed      result is a list of DocstringSection objects of a known kind whose value has the shape the section
                   class declares; names/descriptions are str; json.dumps(section.as_dict(), cls=JSONEncoder) works
  docstring-unmodified / parent-unmodified
                   docstring value/lineno/endlineno/parent/parser/parser_options and the parent module's as_json() are
                   the same before and after
  prose            a text with no section syntax comes back as exactly one text section equal to the cleaned docstring
                   up to whitespace on blank lines (an empty docstring may also yield [])
"""

from __future__ import annotations

import json
import os
import signal
import subprocess
import sys
import tempfile

from vp.common.harness import Fail, GriffeRaised, call, griffe_frames
from vp.gen import c12_soup as G

ID = "C12"
LEVEL = "exploration"
RULE = (
    "Hypothesis fragment-soup texts (section keywords of all styles in 5 capitalisations, titles, dash lines, item syntaxes, Sphinx fields, "
    "doctest/fence/blank/whitespace-only lines, prose with colons, non-ASCII; structured Google/Numpy/Sphinx blocks and loose lines at "
    "indents 0-12/tabs) x 34 parent templates; every text is parsed under all 266 (style, Boolean option combination) pairs. "
    "evaluations = texts; parses = texts x 266 (see `parses`). non-trivial text = at least one parse returned >=2 sections or a non-text "
    "section; distinct = distinct (parent template, text)"
)
ASSUMPTIONS = [
    "texts are <= ~60 lines; type positions include tokens CPython's compile() gives up on (3000-fold nesting, NUL, a lone surrogate); "
    "lone surrogates elsewhere in the text and texts of megabytes are not explored",
    "parents are built with griffe.visit from one fixed source snippet and registered in their ModulesCollection, as a loader does; "
    "plain-str annotations are set through the public attributes (Function.returns, Parameter.annotation/default); seven more parents are "
    "hand-built with the public API and attached to nothing (Function('__init__'), Function, Attribute, Class, a Class whose __init__ is an "
    "alias to a missing target, a method of a parent-less class, a function in a Module without modules collection), as the repository's own "
    "docstring tests build them",
    "the docstring under test is created with Docstring(text, lineno=.., endlineno=.., parent=p) and is not attached as p.docstring; four entry "
    "points are alternated: parse('style', **opts), parse(Parser.style, **opts), the cached `parsed` property, and parse() without arguments on a "
    "docstring configured with parser/parser_options. docstring-unmodified compares the set of instance attributes too (a `parsed` cache entry is "
    "accepted only when the `parsed` property itself was read). After the argument-less parse() a history is played: the caller empties the list "
    "it received, docstring.value is replaced by a prose text, parse() must return one text section with the new value (the property quantifies "
    "over every text; a result that depends on an earlier parse is not a function of the text)",
    "well-formedness is what the section classes in _griffe/docstrings/models.py declare (annotation/value may be str, Expr or None)",
    "prose clause: 'no section syntax' = no line starting with ':', no dash-only line, and every title-like line (`identifier:` + end of line or "
    "blank; known keywords included) has a missing, blank or un-indented line directly below it - the docs define a Google section as a title "
    "with indented contents directly below and call a blank line in between plain markup; key: value lines are therefore prose",
    "prose clause: skipped for ignore_init_summary on an __init__ method (documented to drop the summary) and for "
    "returns_type_in_property_summary on a property whose first line contains a colon (documented `type: summary` syntax); "
    "an empty docstring may yield []",
    "termination: ITIMER_VIRTUAL CPU guard of 0.25 s per parse only aborts and classifies the parse as inconclusive; a hang is reported only "
    "after the same parse exceeds 25 s CPU alone in a fresh process (at most one such confirmation per worker process)",
    "logging is disabled by the harness; messages are still formatted (docstring_warning runs)",
]
BUDGET_S = {"quick": 45.0, "thorough": 780.0}
SHRINK_MAX_EXAMPLES = 2000

PARSE_CPU_S = 0.25
ALONE_FACTOR = 100
MAX_ALONE_PER_PROCESS = 1

# ----------------------------------------------------------------------------------------------- parents (cached per process)
_PARENTS: dict = {}


def _parent(tid: str):
    got = _PARENTS.get(tid)
    if got is None:
        root, obj = G.build_parent(tid)
        base = root.as_json() if root is not None else None
        got = _PARENTS[tid] = (root, obj, base)
    return got


def _invalidate(tid: str) -> None:
    _PARENTS.pop(tid, None)


# ----------------------------------------------------------------------------------------------- CPU guard
class _Timeout(BaseException):
    def __init__(self, where: str):
        super().__init__(where)
        self.where = where


def _on_vtalrm(signum, frame):  # noqa: ARG001
    """Raise _Timeout in the interrupted code; `where` is the outermost frame inside a docstring parser module
    (stable for bucketing: the parser entry point that did not return)."""
    from vp.common.bootstrap import SRC

    root = os.path.join(str(SRC), "_griffe", "docstrings") + os.sep
    where = "?"
    f = frame
    while f is not None:
        fn = f.f_code.co_filename
        if fn.startswith(root) and not fn.endswith("parsers.py"):
            where = f"_griffe/docstrings/{os.path.basename(fn)}:{f.f_code.co_name}"
        f = f.f_back
    if _armed[0]:
        raise _Timeout(where)


_handler_installed = False
_armed = [False]


def _limit_memory(gib: float = 6.0) -> None:
    """Safety net for the worker / alone processes: a non-terminating parse that also allocates must not eat the machine."""
    try:
        import resource

        soft, hard = resource.getrlimit(resource.RLIMIT_AS)
        want = int(gib * 2**30)
        if hard != resource.RLIM_INFINITY:
            want = min(want, hard)
        resource.setrlimit(resource.RLIMIT_AS, (want, hard))
    except Exception:  # noqa: BLE001, S110
        pass


def _guarded(fn, seconds: float):
    """Run fn() under a CPU-time guard. Raises _Timeout when the guard fires. The timer re-fires every 50 ms until it is
    disarmed, so a _Timeout that gets swallowed somewhere (finaliser, broad handler) cannot leave the parse unguarded."""
    global _handler_installed
    if not _handler_installed:
        signal.signal(signal.SIGVTALRM, _on_vtalrm)
        _handler_installed = True
    _armed[0] = True
    signal.setitimer(signal.ITIMER_VIRTUAL, seconds, 0.05)
    try:
        return fn()
    finally:
        _armed[0] = False
        signal.setitimer(signal.ITIMER_VIRTUAL, 0)


_alone_runs = 0
STATS = {"inconclusive_timeouts": 0, "alone_replays": 0}


def _alone(case1: dict, seconds: float) -> str:
    """Replay one single parse alone in a fresh process with a CPU budget. -> 'returned' | 'hang' | 'error:<text>'"""
    from vp.common import bootstrap

    fd, path = tempfile.mkstemp(prefix="verif-c12-alone-", suffix=".json", dir="/dev/shm" if os.access("/dev/shm", os.W_OK) else None)
    try:
        with os.fdopen(fd, "w") as fh:
            json.dump({"case": case1, "seconds": seconds}, fh)
        code = (
            "import sys; sys.path.insert(0, %r); from vp.common import bootstrap; bootstrap.setup(); "
            "from vp.props import c12; sys.exit(c12._alone_main(sys.argv[1]))" % str(bootstrap.VERIF)
        )
        try:
            p = subprocess.run([sys.executable, "-c", code, path], env=bootstrap.subprocess_env(), capture_output=True, text=True, timeout=seconds * 4 + 60)
        except subprocess.TimeoutExpired:
            return "hang"
        if p.returncode == 0:
            return "returned"
        if p.returncode == 3:
            return "hang"
        return "error:" + (p.stderr or p.stdout)[-300:]
    finally:
        try:
            os.unlink(path)
        except OSError:
            pass


def _alone_main(path: str) -> int:
    _limit_memory()
    doc = json.loads(open(path).read())
    case = doc["case"]
    (style, opts), = G.combos_for(case)
    _root, parent, _base = _parent(case["parent"])
    text = G.case_text(case)
    try:
        _guarded(lambda: _parse(text, parent, style, opts), float(doc["seconds"]))
    except _Timeout:
        return 3
    except Exception:  # noqa: BLE001  (raising is "returned" for the termination clause)
        return 0
    return 0


# ----------------------------------------------------------------------------------------------- the parse and its oracle
def _route(style: str, opts: dict) -> int:
    """Which public entry point is used for this (style, options) pair (stable, so that narrowed replays take the same one):
    0 = Docstring.parse("style", **opts); 1 = Docstring.parse(Parser.style, **opts); 2 = Docstring(parser=, parser_options=).parsed;
    3 = Docstring(parser=, parser_options=).parse() with no argument (what the loader configures), followed by a small history:
        the caller empties the list it got, the docstring's value is replaced by a prose text, parse() is called again"""
    return (len(style) + sum(1 << i for i, v in enumerate(opts.values()) if v)) % 4


SECOND_TEXT = "Second text without any section syntax."


def _parse(text: str, parent, style: str, opts: dict):
    import griffe

    nlines = text.count("\n") + 1
    route = _route(style, opts)
    if route >= 2:
        doc = griffe.Docstring(text, lineno=3, endlineno=3 + nlines - 1, parent=parent, parser=style, parser_options=dict(opts))
    else:
        doc = griffe.Docstring(text, lineno=3, endlineno=3 + nlines - 1, parent=parent)
    before = _snapshot(doc, route)
    second = None
    if route == 0:
        result = doc.parse(style, **opts)
    elif route == 1:
        result = doc.parse(griffe.Parser(style), **opts)
    elif route == 2:
        result = doc.parsed
    else:
        got = doc.parse()
        result = list(got) if isinstance(got, list) else got
        if isinstance(got, list):
            del got[:]  # the caller edits the list it was given
        original = doc.value
        doc.value = SECOND_TEXT
        try:
            second = doc.parse()
        finally:
            doc.value = original
    return doc, before, result, second


def _snapshot(doc, route: int):
    """Everything the docstring object holds: its attribute names (the `parsed` cache entry is legitimate only when the
    `parsed` property itself was used) and the values of the documented fields."""
    names = tuple(sorted(k for k in vars(doc) if not (route == 2 and k == "parsed")))
    return (names, doc.value, doc.lineno, doc.endlineno, doc.parser, dict(doc.parser_options))


_ELEMENT_CLASS = {
    "parameters": "DocstringParameter",
    "other parameters": "DocstringParameter",
    "raises": "DocstringRaise",
    "warns": "DocstringWarn",
    "returns": "DocstringReturn",
    "yields": "DocstringYield",
    "receives": "DocstringReceive",
    "attributes": "DocstringAttribute",
    "functions": "DocstringFunction",
    "classes": "DocstringClass",
    "modules": "DocstringModule",
}
_NAMED = {"DocstringParameter", "DocstringReturn", "DocstringYield", "DocstringReceive", "DocstringAttribute", "DocstringFunction",
          "DocstringClass", "DocstringModule"}  # fmt: skip


def _ann_ok(v) -> bool:
    from _griffe.expressions import Expr

    return v is None or isinstance(v, (str, Expr))


def malformed(result) -> list[tuple[str, str]]:
    """[(kind, message)] for everything that is not well-formed in a parser result."""
    import griffe
    from _griffe.docstrings import models as M
    from _griffe.enumerations import DocstringSectionKind as K

    out = []
    if type(result) is not list:
        return [("not-a-list", f"parser returned {type(result).__name__}")]
    for i, sec in enumerate(result):
        if not isinstance(sec, M.DocstringSection):
            out.append(("not-a-section", f"item {i} is {type(sec).__name__}"))
            continue
        kind = getattr(sec, "kind", None)
        if not isinstance(kind, K):
            out.append(("bad-kind", f"section {i} kind={kind!r}"))
            continue
        k = kind.value
        if not (sec.title is None or isinstance(sec.title, str)):
            out.append((f"{k}:title-type", f"section {i} title={sec.title!r}"))
        v = sec.value
        if k == "text":
            if not isinstance(v, str):
                out.append(("text:value-type", f"text section {i} value is {type(v).__name__}"))
        elif k in _ELEMENT_CLASS:
            cls = getattr(M, _ELEMENT_CLASS[k])
            if not isinstance(v, list):
                out.append((f"{k}:value-type", f"section {i} value is {type(v).__name__}, expected list"))
            else:
                for j, el in enumerate(v):
                    if not isinstance(el, cls):
                        out.append((f"{k}:element-class", f"section {i} item {j} is {type(el).__name__}, expected {cls.__name__}"))
                        continue
                    if not isinstance(el.description, str):
                        out.append((f"{k}:description-type", f"section {i} item {j} description={el.description!r}"))
                    if not _ann_ok(el.annotation):
                        out.append((f"{k}:annotation-type", f"section {i} item {j} annotation={el.annotation!r}"))
                    if cls.__name__ in _NAMED:
                        if not isinstance(el.name, str):
                            out.append((f"{k}:name-type", f"section {i} item {j} name={el.name!r}"))
                        if not _ann_ok(el.value):
                            out.append((f"{k}:default-type", f"section {i} item {j} value={el.value!r}"))
        elif k == "examples":
            if not isinstance(v, list):
                out.append(("examples:value-type", f"section {i} value is {type(v).__name__}"))
            else:
                for j, el in enumerate(v):
                    ok = isinstance(el, tuple) and len(el) == 2 and el[0] in (K.text, K.examples) and isinstance(el[1], str)
                    if not ok:
                        out.append(("examples:element", f"section {i} item {j} is {el!r}"))
        elif k == "deprecated":
            if not isinstance(v, M.DocstringDeprecated) or not isinstance(v.annotation, str) or not isinstance(v.description, str):
                out.append(("deprecated:value", f"section {i} value={getattr(v, '__dict__', v)!r}"))
        elif k == "admonition":
            if not isinstance(v, M.DocstringAdmonition) or not isinstance(v.annotation, str) or not isinstance(v.description, str):
                out.append(("admonition:value", f"section {i} value={getattr(v, '__dict__', v)!r}"))
        else:
            out.append(("unknown-kind", f"section {i} kind={k}"))
            continue
        try:
            d = sec.as_dict()
            s = json.dumps(d, cls=griffe.JSONEncoder)
            if not isinstance(s, str) or d.get("kind") != k:
                out.append((f"{k}:as-dict", f"section {i} as_dict kind={d.get('kind')!r}"))
        except Exception as exc:  # noqa: BLE001
            frames = griffe_frames(exc.__traceback__)
            out.append((f"{k}:not-serialisable", f"section {i}: json.dumps(as_dict(), cls=JSONEncoder) raised {type(exc).__name__}: {str(exc)[:160]} ({frames[-1] if frames else 'json'})"))
    return out


def _norm_blank(text: str) -> str:
    """Whitespace on blank lines aside: blank lines become empty, leading/trailing blank lines are dropped
    (inspect.cleandoc can leave a whitespace-only first line; the Sphinx parser strips blank lines around its text)."""
    lines = ["" if not ln.strip() else ln for ln in text.split("\n")]
    while lines and not lines[0]:
        lines.pop(0)
    while lines and not lines[-1]:
        lines.pop()
    return "\n".join(lines)


def _prose_fail(doc, result, style, opts, facts) -> tuple[str, str] | None:
    if opts.get("ignore_init_summary") and facts["is_init"]:
        return None
    first = doc.value.lstrip().split("\n", 1)[0]  # the option looks at the first non-blank line (`value.lstrip()`)
    if opts.get("returns_type_in_property_summary") and facts["is_property"] and ":" in first:
        return None
    if not doc.value.strip() and result == []:
        return None
    kinds = [getattr(getattr(s, "kind", None), "value", "?") for s in result]
    if kinds != ["text"]:
        return (f"{style}:sections", f"expected exactly one text section, got kinds {kinds}")
    got = result[0].value
    if not isinstance(got, str) or _norm_blank(got) != _norm_blank(doc.value):
        return (f"{style}:text", f"text section {got!r} differs from cleaned docstring {doc.value!r}")
    return None


_LAST: dict = {}


def _describe_opts(opts: dict) -> str:
    on = [k for k, v in opts.items() if v]
    return "{" + ", ".join(on) + "}" if on else "{all options false}"


def check_case(case) -> list[Fail]:
    global _alone_runs
    _LAST.clear()
    tid = case["parent"]
    text = G.case_text(case)
    combos = G.combos_for(case)
    facts = G.parent_facts(tid)
    root, parent, baseline = _parent(tid)
    fails: dict[str, Fail] = {}
    nontrivial = 0
    parses = 0
    kinds_seen: set[str] = set()
    timeouts = 0
    prose = bool(case.get("prose"))
    prose_checked = 0

    def add(f: Fail) -> None:
        fails.setdefault(f.bucket, f)

    def where(style, opts) -> str:
        return f"Docstring({text!r}, parent=<{tid}>).parse({style!r}, **{opts})"

    for style, opts in combos:
        parses += 1
        try:
            doc, before, result, second = _guarded(lambda: call("total", _parse, text, parent, style, opts, what=where(style, opts)), PARSE_CPU_S)  # noqa: B023
        except GriffeRaised as gr:
            f = gr.fail
            add(Fail(f.clause, f"{style}:{f.kind}", f.message, {"style": style, "opts": opts}))
            continue
        except _Timeout as to:
            timeouts += 1
            one = {"parent": tid, "text": text, "style": style, "opts": opts}
            if _alone_runs < MAX_ALONE_PER_PROCESS:
                _alone_runs += 1
                STATS["alone_replays"] += 1
                verdict = _alone(one, PARSE_CPU_S * ALONE_FACTOR)
            else:
                verdict = "skipped"
            if verdict == "hang":
                add(Fail("terminates", f"{style}:no-return@{to.where}", f"{where(style, opts)} did not return within {PARSE_CPU_S * ALONE_FACTOR:.0f} s CPU "
                         f"when replayed alone in a fresh process (in-search guard {PARSE_CPU_S} s fired in {to.where})", {"style": style, "opts": opts}))  # fmt: skip
            else:
                STATS["inconclusive_timeouts"] += 1
            continue
        # docstring unmodified
        after = _snapshot(doc, _route(style, opts))
        if after != before or doc.parent is not parent:
            what = "attributes" if after[0] != before[0] else "changed"
            add(Fail("docstring-unmodified", f"{style}:{what}", f"{where(style, opts)}: docstring attributes/fields changed from {before!r} to {after!r}", {"style": style, "opts": opts}))
        # history (entry point 3 only): after the caller emptied its list and the value became a prose text, parse() describes the new text
        if second is not None and not (opts.get("ignore_init_summary") and facts["is_init"]):
            ks2 = [getattr(getattr(s, "kind", None), "value", "?") for s in second] if isinstance(second, list) else None
            if ks2 != ["text"] or second[0].value != SECOND_TEXT:
                got2 = [(k, getattr(s, "value", None) if k == "text" else "...") for k, s in zip(ks2 or [], second or [])]
                add(Fail("prose", f"{style}:after-value-change", f"Docstring({text!r}, parent=<{tid}>, parser={style!r}, parser_options={opts}): parse(); the caller empties the "
                         f"returned list; docstring.value = {SECOND_TEXT!r}; parse() returned {got2!r} instead of one text section holding the new value", {"style": style, "opts": opts}))  # fmt: skip
        # well-formed
        for kind, msg in malformed(result):
            add(Fail("well-formed", f"{style}:{kind}", f"{where(style, opts)}: {msg}", {"style": style, "opts": opts}))
        if isinstance(result, list):
            ks = [getattr(getattr(s, "kind", None), "value", "?") for s in result]
            if len(ks) >= 2 or any(k != "text" for k in ks):
                nontrivial += 1
            for k in ks:
                kinds_seen.add(f"{style}:{k}")
            # prose clause
            if prose and G.is_prose_only(doc.value.split("\n")):
                prose_checked += 1
                pf = _prose_fail(doc, result, style, opts, facts)
                if pf:
                    add(Fail("prose", pf[0], f"{where(style, opts)}: {pf[1]}", {"style": style, "opts": opts}))

    # parent unmodified (checked once per text; the culprit parse is then searched one by one)
    if root is not None:
        now = call("parent-unmodified", root.as_json, what="parent.module.as_json()")
        if now != baseline:
            culprit = None
            for style, opts in combos:
                _invalidate(tid)
                r2, p2, b2 = _parent(tid)
                try:
                    _guarded(lambda: _parse(text, p2, style, opts), PARSE_CPU_S)  # noqa: B023
                except BaseException:  # noqa: BLE001, S112
                    continue
                if r2.as_json() != b2:
                    culprit = (style, opts)
                    break
            _invalidate(tid)
            if culprit:
                add(Fail("parent-unmodified", f"{culprit[0]}:changed", f"{where(*culprit)}: the parent module's as_json() differs after the parse", {"style": culprit[0], "opts": culprit[1]}))
            else:
                add(Fail("parent-unmodified", "changed", f"parent <{tid}> as_json() differs after parsing {text!r} under all option combinations"))

    _LAST.update(parses=parses, nontrivial=nontrivial, kinds=sorted(kinds_seen), timeouts=timeouts, prose_checked=prose_checked, nlines=text.count("\n") + 1)
    return list(fails.values())


# ----------------------------------------------------------------------------------------------- search
def strategy(ctx):
    return G.soup_cases(), "soup"


def _describe(ctx):
    def describe(case):
        st_ = dict(_LAST)
        parses = st_.get("parses", 0)
        ctx.res.extra["parses"] = ctx.res.extra.get("parses", 0) + parses
        ctx.res.extra["nontrivial_parses"] = ctx.res.extra.get("nontrivial_parses", 0) + st_.get("nontrivial", 0)
        ctx.res.extra["prose_parses_checked"] = ctx.res.extra.get("prose_parses_checked", 0) + st_.get("prose_checked", 0)
        text = G.case_text(case)
        key = (case["parent"], text) if st_.get("nontrivial") else None
        classes = ["parent:" + case["parent"], "prose" if case.get("prose") else "soup"]
        n = st_.get("nlines", 0)
        classes.append("lines:" + ("0-1" if n <= 1 else "2-5" if n <= 5 else "6-15" if n <= 15 else "16+"))
        classes += ["produced:" + k for k in st_.get("kinds", ())]
        if st_.get("timeouts"):
            classes.append("timeout-inconclusive")
        sample = None
        if key is not None and len(text) < 400:
            sample = {"parent": case["parent"], "text": text, "section_kinds_over_all_options": st_.get("kinds")}
        return key, classes, sample

    return describe


def run_shard(ctx) -> None:
    if ctx.nshards > 1:
        _limit_memory()
    strat, salt = strategy(ctx)
    n = ctx.scale(6000, 100000)
    fuzz_here = (not ctx.quick) and ctx.shard == 0
    if fuzz_here:
        n = n * 3 // 10  # shard 0 of the thorough tier spends the rest of its time in the Atheris target
    # four chunks (own salts) so that a run that is out of budget stops generating instead of drawing thousands of unused examples
    import time

    chunks = 4
    for k in range(chunks):
        if ctx.out_of_budget() or (fuzz_here and time.monotonic() - ctx.t0 > 0.35 * ctx.budget_s):
            break
        ctx.run_hypothesis(strat, check_case, max(1, n // chunks), describe=_describe(ctx), salt=salt if k == 0 else f"{salt}{k}")
    ctx.res.extra["inconclusive_timeouts"] = ctx.res.extra.get("inconclusive_timeouts", 0) + STATS["inconclusive_timeouts"]
    ctx.res.extra["alone_replays"] = ctx.res.extra.get("alone_replays", 0) + STATS["alone_replays"]
    if fuzz_here:
        from vp.fuzz import c12_atheris

        c12_atheris.run(ctx, check_case, seconds=max(60.0, ctx.budget_s - (time.monotonic() - ctx.t0)))
