"""C10 — No call-breaking signature change goes unreported.

Domain: every legal signature over names {a,b,c}, five kinds, default in {none, =1, =2}, <= 3 parameters;
ordered pairs (old, new); call shapes = 0..4 positional arguments x every subset of keyword names {a,b,c,z}.
Oracle: CPython's own binder (the compiled function is *called*), plus a structural model of the two parameter
lists for the "justified" clause.
"""

from __future__ import annotations

import itertools

from vp.common.harness import GriffeRaised, Fail, call

ID = "C10"
LEVEL = "exploration"
RULE = (
    "enumeration of ordered pairs (old,new) of signatures over names {a,b,c} x kinds {pos-only,pos-or-kw,*var,kw-only,**var} "
    "x default {none,=1,=2}, <=3 parameters, every legal order; each pair judged against 80 call shapes bound by CPython. "
    "non-trivial = old != new and old accepts at least one call shape; distinct = distinct (old,new) pair"
)
ASSUMPTIONS = [
    "extra renderings (sampled 1/397 quick, 1/47 thorough per rendering): 'api-built' - the new function is the old one whose `parameters` "
    "were edited into the new signature through Parameters.__setitem__/add/__delitem__ (all four clauses; an exception raised by that API "
    "or by the differ is a failure); 'reexport>direct', 'direct>reexport', 'reexport>reexport' - the public m.f is re-exported from the "
    "private module m._impl on one or both sides (only 'call-breaking => some breakage on m.f or m._impl.f' and 'identical => silent')",
    "class renderings (sampled 1/41 quick, 1/11 thorough per rendering): the same pairs as @staticmethod, ordinary method and @classmethod of a "
    "public class S, judged with all four clauses on m.S.f; the implicit self/cls is written before the text, so it is positional-only iff "
    "the text contains `/` - a CHANGED_KIND breakage on it is justified exactly then, any other breakage naming it is not",
    "default-text phase (complete, 4 templates x 25 x 25): two default texts denote the same default iff CPython evaluates both literals "
    "to values with the same repr (so 1, True and 1.0 are three different defaults, 1 and 0x1 the same one); non-literal defaults are "
    "compared by syntax tree. Changed => some breakage naming the parameter; same => no breakage at all",
    "inherited-method rendering (sampled): the function is a method of a private class _B reachable only as S.f of a public subclass; "
    "only 'call-breaking => some breakage on it' and 'identical => silent' are judged there",
    "CPython 3.12 call binding is the reference for 'a call binds'",
    "call shapes are limited to <=4 positional arguments and keyword names from {a,b,c,z}",
    "signatures are visited with griffe.visit into one-function modules; both modules are named 'm'",
]
EXHAUSTIVE = True
EXHAUSTIVE_NOTE = {
    "quick": "all ordered pairs of the 2290-signature alphabet over {a,b,c}, <=3 parameters (5,244,100 pairs), 80 call shapes each",
    "thorough": "all ordered pairs of the 2290-signature alphabet over {a,b,c}, <=3 parameters (exhaustive); additionally a seeded ~1.5% sample "
    "(not exhaustive) of the 1.4e9 pairs over {a,b,c,d}, <=4 parameters, 192 call shapes each",
}
BUDGET_S = {"quick": 100.0, "thorough": 3000.0}

KINDS = ("po", "pk", "va", "ko", "vk")
GRIFFE_KIND = {
    "po": "positional-only",
    "pk": "positional or keyword",
    "va": "variadic positional",
    "ko": "keyword-only",
    "vk": "variadic keyword",
}
def call_shapes(kw_names=("a", "b", "c", "z"), max_pos=4):
    return [(n, kws) for n in range(max_pos + 1) for r in range(len(kw_names) + 1) for kws in itertools.combinations(kw_names, r)]


CALL_SHAPES = call_shapes()
CALL_SHAPES_4 = call_shapes(("a", "b", "c", "d", "z"), 5)


def shapes_for(case) -> list:
    return CALL_SHAPES_4 if case.get("space") == "abcd4" else CALL_SHAPES


# ----------------------------------------------------------------------------- signatures
def all_signatures(names=("a", "b", "c"), max_params=3):
    """Every legal parameter list: tuples of (name, kind, default) with default in (0, 1, 2); 0 = none."""
    out = []
    for n in range(max_params + 1):
        for chosen in itertools.permutations(names, n):
            # split n names into po / pk / va(0|1) / ko / vk(0|1)
            for n_po in range(n + 1):
                for n_pk in range(n - n_po + 1):
                    for has_va in (0, 1):
                        for has_vk in (0, 1):
                            n_ko = n - n_po - n_pk - has_va - has_vk
                            if n_ko < 0:
                                continue
                            kinds = ["po"] * n_po + ["pk"] * n_pk + ["va"] * has_va + ["ko"] * n_ko + ["vk"] * has_vk
                            npos = n_po + n_pk
                            # positional defaults: first k without default, the rest with default in {1,2}
                            pos_opts = []
                            for k in range(npos + 1):
                                for ds in itertools.product((1, 2), repeat=npos - k):
                                    pos_opts.append((0,) * k + ds)
                            ko_opts = list(itertools.product((0, 1, 2), repeat=n_ko))
                            for pd in pos_opts:
                                for kd in ko_opts:
                                    defaults = list(pd) + [0] * has_va + list(kd) + [0] * has_vk
                                    out.append(tuple(zip(chosen, kinds, defaults)))
    return out


def render(sig) -> str:
    """Parameter-list text of a signature tuple."""
    parts = []
    kinds = [k for _, k, _ in sig]
    n_po = kinds.count("po")
    seen_star = False
    for i, (name, kind, d) in enumerate(sig):
        dflt = f"={d}" if d else ""
        if kind == "va":
            parts.append(f"*{name}")
            seen_star = True
        elif kind == "vk":
            parts.append(f"**{name}")
        elif kind == "ko":
            if not seen_star:
                parts.append("*")
                seen_star = True
            parts.append(f"{name}{dflt}")
        else:
            parts.append(f"{name}{dflt}")
            if kind == "po" and i == n_po - 1:
                parts.append("/")
    return ", ".join(parts)


def parse_sig(text: str):
    """Inverse of render, via CPython's parser (used by replay)."""
    import ast

    a = ast.parse(f"def f({text}): pass").body[0].args
    out = []
    pos = [(x.arg, "po") for x in a.posonlyargs] + [(x.arg, "pk") for x in a.args]
    nd = len(a.defaults)
    for i, (n, k) in enumerate(pos):
        j = i - (len(pos) - nd)
        out.append((n, k, ast.literal_eval(a.defaults[j]) if j >= 0 else 0))
    if a.vararg:
        out.append((a.vararg.arg, "va", 0))
    for x, d in zip(a.kwonlyargs, a.kw_defaults):
        out.append((x.arg, "ko", ast.literal_eval(d) if d is not None else 0))
    if a.kwarg:
        out.append((a.kwarg.arg, "vk", 0))
    return tuple(out)


def accept_mask(text: str, shapes=CALL_SHAPES) -> int:
    ns: dict = {}
    exec(f"def f({text}): pass", ns)  # noqa: S102
    f = ns["f"]
    mask = 0
    for bit, (npos, kws) in enumerate(shapes):
        try:
            f(*range(npos), **dict.fromkeys(kws, 0))
        except TypeError:
            continue
        mask |= 1 << bit
    return mask


def griffe_module(text: str):
    import griffe

    return call("total", griffe.visit, "m", filepath=None, code=f"def f({text}): ...\n", what=f"visit def f({text})")


# ----------------------------------------------------------------------------- judge
POSITIONAL = ("po", "pk")


def _required(entry) -> bool:
    _, kind, default = entry
    return not default and kind not in ("va", "vk")


def judge(old, new, old_mask: int, new_mask: int, breakages, shapes=CALL_SHAPES, path_f: str = "m.f") -> list[Fail]:
    """All clauses for one pair. `breakages` = list of (kind_name, obj_path, old_param_name|None, new_param_name|None)."""
    fails: list[Fail] = []
    old_t, new_t = render(old), render(new)
    on_f = [b for b in breakages if b[1] == path_f]
    # clause 3: identical => nothing
    if old == new:
        if breakages:
            fails.append(Fail("identical-silent", "reported", f"identical signatures ({old_t}) reported {breakages}"))
        return fails
    # clause 1: call-breaking => at least one breakage on the function
    broken = old_mask & ~new_mask
    if broken and not on_f:
        bit = (broken & -broken).bit_length() - 1
        npos, kws = shapes[bit]
        shape = f"f({', '.join([str(i) for i in range(npos)] + [k + '=0' for k in kws])})"
        ob = {n: k for n, k, _ in old}
        nb = {n: k for n, k, _ in new}
        feat = sorted(
            {f"{k}>{nb[n]}" for n, k in ob.items() if n in nb and nb[n] != k}
            | {f"-{k}" for n, k in ob.items() if n not in nb}
            | {f"+{k}{'' if d or k in ('va', 'vk') else '!'}" for n, k, d in new if n not in ob}
        )
        fails.append(
            Fail(
                "call-breaking-reported",
                "unreported[" + ",".join(feat) + "]",
                f"def f({old_t}) -> def f({new_t}): call {shape} binds against old, TypeError against new; no breakage reported",
                {"call": shape},
            )
        )
    old_by = {n: (i, k, d) for i, (n, k, d) in enumerate(old)}
    new_by = {n: (i, k, d) for i, (n, k, d) in enumerate(new)}
    named = {}
    for kind, _, op, np_ in on_f:
        named.setdefault(op or np_, set()).add(kind)
    # clause 2: moved / changed default / optional->required always reported (a breakage naming that parameter)
    for name, (oi, ok, od) in old_by.items():
        if name not in new_by:
            continue
        ni, nk, nd = new_by[name]
        if ok in POSITIONAL and nk in POSITIONAL and oi != ni and name not in named:
            fails.append(Fail("moved-reported", "unreported", f"def f({old_t}) -> def f({new_t}): positional {name} moved {oi}->{ni}, nothing reported for it"))
        nonvar = ok not in ("va", "vk") and nk not in ("va", "vk")
        if nonvar and od and nd and od != nd and name not in named:
            fails.append(Fail("default-reported", "unreported", f"def f({old_t}) -> def f({new_t}): default of {name} changed {od}->{nd}, nothing reported for it"))
        if nonvar and od and not nd and name not in named:
            fails.append(Fail("required-reported", "unreported", f"def f({old_t}) -> def f({new_t}): {name} became required, nothing reported for it"))
    # clause 4: every parameter breakage is justified
    for kind, path, op, np_ in breakages:
        if path != path_f:
            fails.append(Fail("justified", "wrong-object", f"def f({old_t}) -> def f({new_t}): breakage {kind} on {path}"))
            continue
        name = op or np_
        o = old_by.get(name)
        n = new_by.get(name)
        ok_ = True
        if kind == "PARAMETER_MOVED":
            ok_ = bool(o and n and o[0] != n[0])
        elif kind == "PARAMETER_REMOVED":
            ok_ = bool(o and not n)
        elif kind == "PARAMETER_CHANGED_KIND":
            ok_ = bool(o and n and o[1] != n[1])
        elif kind == "PARAMETER_CHANGED_DEFAULT":
            ok_ = bool(o and n and o[2] != n[2])
        elif kind == "PARAMETER_CHANGED_REQUIRED":
            # a variadic parameter can always be omitted: it counts as optional
            ok_ = bool(o and n and _required(o) != _required(n))
        elif kind == "PARAMETER_ADDED_REQUIRED":
            ok_ = bool(n and not o and not n[2] and n[1] not in ("va", "vk"))
        elif kind.startswith("PARAMETER_"):
            ok_ = False
        else:
            # a non-parameter breakage (return type, kind, removal) cannot be caused by a parameter-only change
            ok_ = False
        if not ok_:
            fails.append(Fail("justified", kind.lower(), f"def f({old_t}) -> def f({new_t}): breakage {kind} on parameter {name!r} is not justified by the two parameter lists"))
    return fails


def griffe_breakages(old_mod, new_mod):
    import griffe

    out = []
    for b in call("total", lambda: list(griffe.find_breaking_changes(old_mod, new_mod)), what="find_breaking_changes"):
        ov, nv = b.old_value, b.new_value
        out.append((b.kind.name, b.obj.path, getattr(ov, "name", None), getattr(nv, "name", None)))
    return out


# ----------------------------------------------------------------------------- entry points
def check_case(case) -> list[Fail]:
    if case.get("render") == "default-text":
        br = griffe_breakages(griffe_module(case["old"]), griffe_module(case["new"]))
        return judge_default_text(case["old"], case["new"], case["old_default"], case["new_default"], br)
    old, new = parse_sig(case["old"]), parse_sig(case["new"])
    shapes = shapes_for(case)
    om, nm = accept_mask(case["old"], shapes), accept_mask(case["new"], shapes)
    if case.get("render") in EXTRA_RENDERINGS:
        r = case["render"]
        o_mod, n_mod = _extra_pair(r, case["old"], case["new"])
        br = griffe_breakages(o_mod, n_mod)
        if r == "api-built":
            return judge(old, new, om, nm, br, shapes)
        return judge_weak(old, new, om, nm, br, shapes, r, REEXPORT_PATHS)
    if case.get("render") in CLASS_RENDERINGS:
        r = case["render"]
        br = griffe_breakages(griffe_class_module(case["old"], r), griffe_class_module(case["new"], r))
        return judge_class(old, new, om, nm, br, shapes, r)
    if case.get("render") == "inherited-method":
        br = griffe_breakages(griffe_method_module(case["old"]), griffe_method_module(case["new"]))
        return judge_method(old, new, om, nm, br, shapes)
    br = griffe_breakages(griffe_module(case["old"]), griffe_module(case["new"]))
    return judge(old, new, om, nm, br, shapes)


def _is_multiple_values_collision(case, fail: Fail) -> bool:
    """Known finding: every call that stops binding fails against the new signature with
    "got multiple values for argument X", where X became bindable both positionally and by keyword
    (keyword-only -> positional-or-keyword, positional-only -> positional-or-keyword, or a new optional
    positional-or-keyword parameter) and the old signature absorbed the colliding argument in *args / **kwargs
    or in a positional-only slot. Anything else that goes unreported is still a violation."""
    if fail.clause != "call-breaking-reported":
        return False
    old, new = parse_sig(case["old"]), parse_sig(case["new"])
    ob = {n: k for n, k, _ in old}
    collidable = set()
    for n, k, d in new:
        if k != "pk":
            continue
        if ob.get(n) in ("ko", "po") or (n not in ob and d):
            collidable.add(n)
    if not collidable:
        return False
    ns_old: dict = {}
    ns_new: dict = {}
    exec(f"def f({case['old']}): pass", ns_old)  # noqa: S102
    exec(f"def f({case['new']}): pass", ns_new)  # noqa: S102
    broken = 0
    for npos, kws in shapes_for(case):
        args, kwargs = range(npos), dict.fromkeys(kws, 0)
        try:
            ns_old["f"](*args, **kwargs)
        except TypeError:
            continue
        try:
            ns_new["f"](*args, **kwargs)
        except TypeError as exc:
            broken += 1
            msg = str(exc)
            if "multiple values for argument" not in msg:
                return False
            if msg.rsplit("'", 2)[-2] not in collidable:
                return False
    return broken > 0


KNOWN = {"multiple-values-collision": _is_multiple_values_collision}


def _enumerate(ctx, sigs, shapes, space: str, select) -> None:
    """Judge every ordered pair (i, j) with select(i, j) true; rows are sharded by i modulo nshards."""
    texts = [render(s) for s in sigs]
    assert len(set(texts)) == len(texts)
    masks = [accept_mask(t, shapes) for t in texts]
    mods = [griffe_module(t) for t in texts]
    n = len(sigs)
    for i in range(n):
        if i % ctx.nshards != ctx.shard:
            continue
        if ctx.out_of_budget():
            break
        old, om, omod = sigs[i], masks[i], mods[i]
        for j in range(n):
            if not select(i, j):
                continue
            br = griffe_breakages(omod, mods[j])
            fails = judge(old, sigs[j], om, masks[j], br, shapes)
            nontrivial = 1 if (i != j and om) else None
            if om & ~masks[j]:
                cls = "call-breaking"
            elif i != j:
                cls = "compatible-change" if not br else "compatible-but-reported"
            else:
                cls = "identical"
            sample = None
            if nontrivial is not None and (i * n + j) % 999983 == 7:
                sample = {"space": space, "old": texts[i], "new": texts[j], "breakages": [b[0] + ":" + str(b[2] or b[3]) for b in br]}
            ctx.case(nontrivial, (space + ":" + cls,), sample, enumerated=True)
            for f in fails:
                ctx.fail(f, {"space": space, "old": texts[i], "new": texts[j]})


def griffe_method_module(text: str):
    """The same signature as a method of a private base class, exposed only through a public subclass."""
    import griffe

    code = f"class _B:\n    def f(self{', ' + text if text else ''}): ...\n\n\nclass S(_B):\n    pass\n"

    def build():
        mc = griffe.ModulesCollection()
        mod = griffe.visit("m", filepath=None, code=code, modules_collection=mc)
        mc["m"] = mod
        return mod

    return call("total", build, what=f"visit method f(self, {text})")


METHOD_PATHS = ("m._B.f", "m.S.f")

CLASS_RENDERINGS = ("staticmethod", "method", "classmethod")


def griffe_class_module(text: str, rendering: str):
    """The same signature as a static method / ordinary method / class method of a public class: callers pass exactly the
    parameters of `text` (S.f(...) resp. S().f(...)); an implicit first parameter, where there is one, never changes."""
    import griffe

    if rendering == "staticmethod":
        code = f"class S:\n    @staticmethod\n    def f({text}): ...\n"
    elif rendering == "classmethod":
        code = f"class S:\n    @classmethod\n    def f(cls{', ' + text if text else ''}): ...\n"
    else:
        code = f"class S:\n    def f(self{', ' + text if text else ''}): ...\n"
    return call("total", griffe.visit, "m", filepath=None, code=code, what=f"visit {rendering} f({text})")


def judge_class(old, new, old_mask: int, new_mask: int, breakages, shapes, rendering: str) -> list[Fail]:
    """All four clauses, as for the module-level function; positions are compared among the explicit parameters."""
    implicit = {"method": "self", "classmethod": "cls"}.get(rendering)
    fails = []
    if implicit:
        # `self, a, /` makes the implicit parameter positional-only: its kind changes iff one of the two texts has a `/`
        kind_changed = ("/" in render(old)) != ("/" in render(new))
        on_implicit = [b for b in breakages if implicit in (b[2], b[3])]
        if [b for b in on_implicit if not (kind_changed and b[0] == "PARAMETER_CHANGED_KIND")]:
            fails.append(Fail("justified", f"implicit-parameter[{rendering}]", f"{rendering} f({render(old)}) -> f({render(new)}): breakage names the implicit parameter {implicit}: {breakages}"))
        breakages = [b for b in breakages if b not in on_implicit]
    for f in judge(old, new, old_mask, new_mask, breakages, shapes, path_f="m.S.f"):
        if f.clause == "call-breaking-reported" and implicit and on_implicit:
            continue  # "at least one breakage on that function" is satisfied by the (justified) one on the implicit parameter
        fails.append(Fail(f.clause, f"{f.kind}[{rendering}]", f"[{rendering} of public class S] " + f.message, f.detail))
    return fails


def judge_method(old, new, old_mask: int, new_mask: int, breakages, shapes) -> list[Fail]:
    """Clauses 1 and 3 for the inherited-method rendering: the function is public only as `m.S.f` (inherited from the
    private `m._B`); a call-breaking change must still be reported on it, identical signatures must stay silent."""
    old_t, new_t = render(old), render(new)
    if old == new:
        if breakages:
            return [Fail("identical-silent", "reported[inherited-method]", f"identical method signatures ({old_t}) reported {breakages}")]
        return []
    broken = old_mask & ~new_mask
    if broken and not [b for b in breakages if b[1] in METHOD_PATHS]:
        bit = (broken & -broken).bit_length() - 1
        npos, kws = shapes[bit]
        shape = f"S().f({', '.join([str(i) for i in range(npos)] + [k + '=0' for k in kws])})"
        return [
            Fail(
                "call-breaking-reported",
                "unreported[inherited-method]",
                f"class _B: def f(self, {old_t}) -> def f(self, {new_t}); class S(_B): call {shape} binds against old, TypeError against new; "
                f"no breakage reported on m.S.f / m._B.f (reported: {breakages})",
                {"call": shape},
            )
        ]
    return []


def _enumerate_methods(ctx, sigs, shapes, select) -> None:
    """Sampled: the pair rendered as a method inherited by a public class from a private base."""
    texts = [render(s) for s in sigs]
    masks = [accept_mask(t, shapes) for t in texts]
    mods = [griffe_method_module(t) for t in texts]
    n = len(sigs)
    for i in range(n):
        if i % ctx.nshards != ctx.shard:
            continue
        if ctx.out_of_budget():
            break
        for j in range(n):
            if not select(i, j):
                continue
            br = griffe_breakages(mods[i], mods[j])
            fails = judge_method(sigs[i], sigs[j], masks[i], masks[j], br, shapes)
            nontrivial = 1 if (i != j and masks[i]) else None
            cls = "call-breaking" if masks[i] & ~masks[j] else ("identical" if i == j else "compatible")
            ctx.case(nontrivial, ("inherited-method:" + cls,), None, enumerated=True)
            for f in fails:
                case = {"space": "abc3", "render": "inherited-method", "old": texts[i], "new": texts[j]}
                ctx.fail(f, case)  # (the known multiple-values finding applies to methods exactly as to functions: same predicate)


def _enumerate_class_renderings(ctx, sigs, shapes, select) -> None:
    """Sampled: the pair rendered as static method, method and class method of a public class."""
    texts = [render(s) for s in sigs]
    masks = [accept_mask(t, shapes) for t in texts]
    for rendering in CLASS_RENDERINGS:
        mods = [griffe_class_module(t, rendering) for t in texts]
        n = len(sigs)
        for i in range(n):
            if i % ctx.nshards != ctx.shard:
                continue
            if ctx.out_of_budget():
                break
            for j in range(n):
                if not select(i, j, rendering):
                    continue
                br = griffe_breakages(mods[i], mods[j])
                fails = judge_class(sigs[i], sigs[j], masks[i], masks[j], br, shapes, rendering)
                nontrivial = 1 if (i != j and masks[i]) else None
                cls = "call-breaking" if masks[i] & ~masks[j] else ("identical" if i == j else "compatible")
                ctx.case(nontrivial, (rendering + ":" + cls,), None, enumerated=True)
                for f in fails:
                    ctx.fail(f, {"space": "abc3", "render": rendering, "old": texts[i], "new": texts[j]})


# ----------------------------------------------------------------------------- default values as written (texts, not codes)
DEFAULT_TEXTS = (
    "None", "0", "1", "2", "-1", "True", "False", "0.0", "1.0", "1e0", "0x1", "1j", "''", "'x'", '"x"', "b'x'", "()", "(1,)", "[]", "{}",
    "...", "x", "y", "x.y", "x()",
)
DEFAULT_TEMPLATES = ("a, p={D}", "p={D}, /", "*, p={D}", "a, /, p={D}, *v, **k")


def _default_key(text: str):
    """What "the default value" is for the oracle: the value CPython evaluates the literal to, together with its type
    (1, True and 1.0 are three different defaults although they compare equal); for non-literals, the syntax tree."""
    import ast

    node = ast.parse(text, mode="eval").body
    try:
        return ("value", repr(ast.literal_eval(node)))
    except (ValueError, TypeError, SyntaxError):
        return ("tree", ast.dump(node))


def judge_default_text(old_text: str, new_text: str, od: str, nd: str, breakages) -> list[Fail]:
    """Clause 2 (a changed default is always reported) and clauses 3/4 (same default: silence) on default *texts*."""
    changed = _default_key(od) != _default_key(nd)
    if changed and not [b for b in breakages if b[1] == "m.f" and "p" in (b[2], b[3])]:
        return [Fail("default-reported", "unreported[text]", f"def f({old_text}) -> def f({new_text}): default of p changed {od} -> {nd}, nothing reported for it (reported: {breakages})")]
    if not changed and breakages:
        return [Fail("justified", "reported[same-default-value]", f"def f({old_text}) -> def f({new_text}): {od} and {nd} are the same default value, reported {breakages}")]
    return []


def _enumerate_default_texts(ctx) -> None:
    """Complete: every ordered pair of default texts in every template (4 x 25 x 25 pairs)."""
    k = 0
    for tpl in DEFAULT_TEMPLATES:
        texts = [tpl.format(D=d) for d in DEFAULT_TEXTS]
        mods = None
        for i, od in enumerate(DEFAULT_TEXTS):
            k += 1
            if k % ctx.nshards != ctx.shard:
                continue
            if mods is None:
                mods = [griffe_module(t) for t in texts]
            for j, nd in enumerate(DEFAULT_TEXTS):
                br = griffe_breakages(mods[i], mods[j])
                same = _default_key(od) == _default_key(nd)
                cls = "identical" if i == j else ("same-value-other-text" if same else "changed")
                ctx.case(1 if i != j else None, ("default-text:" + cls,), {"space": "default-text", "old": texts[i], "new": texts[j]} if (i * 25 + j) % 211 == 3 else None, enumerated=True)
                for f in judge_default_text(texts[i], texts[j], od, nd, br):
                    ctx.fail(f, {"space": "default-text", "render": "default-text", "old": texts[i], "new": texts[j], "old_default": od, "new_default": nd})


# ----------------------------------------------------------------------------- other ways a signature pair reaches the differ
def griffe_api_built_module(old_text: str, new_text: str):
    """The new signature reached by editing the old function's `parameters` through the public Parameters API
    (item assignment by index, deletion, `add`), the way an extension rewrites a signature."""
    import griffe

    def build():
        mod = griffe.visit("m", filepath=None, code=f"def f({old_text}): ...\n")
        target = list(griffe.visit("m", filepath=None, code=f"def f({new_text}): ...\n")["f"].parameters)
        params = mod["f"].parameters
        for index, param in enumerate(target):
            if index < len(params):
                params[index] = param
            else:
                params.add(param)
        while len(params) > len(target):
            del params[len(params) - 1]
        return mod

    return call("total", build, what=f"Parameters API: f({old_text}) edited into f({new_text})")


REEXPORT_PATHS = ("m.f", "m._impl.f")


def griffe_reexport_module(text: str, *, direct: bool):
    """Package m whose public f is either defined in m itself (direct) or re-exported from the private module m._impl."""
    import griffe

    def build():
        mc = griffe.ModulesCollection()
        if direct:
            top = griffe.visit("m", filepath=None, code=f"__all__ = ['f']\n\n\ndef f({text}): ...\n", modules_collection=mc)
            mc["m"] = top
            return top
        top = griffe.visit("m", filepath=None, code="from m._impl import f\n\n__all__ = ['f']\n", modules_collection=mc)
        mc["m"] = top
        impl = griffe.visit("_impl", filepath=None, code=f"def f({text}): ...\n", parent=top, modules_collection=mc)
        top.set_member("_impl", impl)
        return top

    return call("total", build, what=f"package m, f({text}) {'direct' if direct else 're-exported from m._impl'}")


def judge_weak(old, new, old_mask: int, new_mask: int, breakages, shapes, rendering: str, paths) -> list[Fail]:
    """Clauses 1 and 3 only (as for the inherited-method rendering): call-breaking => some breakage on the function,
    identical => silence."""
    old_t, new_t = render(old), render(new)
    if old == new:
        if breakages:
            return [Fail("identical-silent", f"reported[{rendering}]", f"[{rendering}] identical signatures ({old_t}) reported {breakages}")]
        return []
    broken = old_mask & ~new_mask
    if broken and not [b for b in breakages if b[1] in paths]:
        bit = (broken & -broken).bit_length() - 1
        npos, kws = shapes[bit]
        shape = f"f({', '.join([str(i) for i in range(npos)] + [k + '=0' for k in kws])})"
        return [
            Fail(
                "call-breaking-reported",
                f"unreported[{rendering}]",
                f"[{rendering}] def f({old_t}) -> def f({new_t}): call {shape} binds against old, TypeError against new; no breakage reported on {paths} (reported: {breakages})",
                {"call": shape},
            )
        ]
    return []


EXTRA_RENDERINGS = ("api-built", "reexport>direct", "direct>reexport", "reexport>reexport")


def _extra_pair(rendering: str, old_t: str, new_t: str, cache: dict | None = None):
    if rendering == "api-built":
        return griffe_module(old_t), griffe_api_built_module(old_t, new_t)
    o, n = rendering.split(">")
    cache = {} if cache is None else cache

    def get(text, direct):
        # old and new side must be distinct objects even for identical texts
        key = (text, direct)
        if key not in cache:
            cache[key] = griffe_reexport_module(text, direct=direct)
        return cache[key]

    old_mod = get(old_t, o == "direct")
    new_mod = get(new_t, n == "direct") if (new_t, n == "direct") != (old_t, o == "direct") else griffe_reexport_module(new_t, direct=n == "direct")
    return old_mod, new_mod


def _enumerate_extra_renderings(ctx, sigs, shapes, select) -> None:
    """Sampled: pairs whose new side was built through the Parameters API (all four clauses), and pairs where the public
    function is a re-export on one or both sides (clauses 1 and 3)."""
    texts = [render(s) for s in sigs]
    masks = [accept_mask(t, shapes) for t in texts]
    n = len(sigs)
    cache: dict = {}
    for rendering in EXTRA_RENDERINGS:
        for i in range(n):
            if i % ctx.nshards != ctx.shard:
                continue
            if ctx.out_of_budget():
                break
            for j in range(n):
                if not select(i, j, rendering):
                    continue
                case = {"space": "abc3", "render": rendering, "old": texts[i], "new": texts[j]}
                try:
                    om, nm = _extra_pair(rendering, texts[i], texts[j], cache)
                    br = griffe_breakages(om, nm)
                except GriffeRaised as gr:  # building the pair or diffing it raised inside Griffe: a failure of this case
                    ctx.case(1 if i != j else None, (rendering + ":raised",), None, enumerated=True)
                    ctx.fail(gr.fail, case)
                    continue
                if rendering == "api-built":
                    fails = [Fail(f.clause, f"{f.kind}[api-built]", "[new side built through the Parameters API] " + f.message, f.detail) for f in judge(sigs[i], sigs[j], masks[i], masks[j], br, shapes)]
                else:
                    fails = judge_weak(sigs[i], sigs[j], masks[i], masks[j], br, shapes, rendering, REEXPORT_PATHS)
                nontrivial = 1 if (i != j and masks[i]) else None
                cls = "call-breaking" if masks[i] & ~masks[j] else ("identical" if i == j else "compatible")
                ctx.case(nontrivial, (rendering + ":" + cls,), None, enumerated=True)
                for f in fails:
                    ctx.fail(f, {"space": "abc3", "render": rendering, "old": texts[i], "new": texts[j]})


def run_shard(ctx) -> None:
    from vp.common.harness import derive_seed

    sigs = all_signatures()
    if ctx.shard == 0:
        ctx.res.extra["signatures_abc3"] = len(sigs)
    # both tiers: the complete cross product of the {a,b,c} x <=3 alphabet
    # first (cheap): the same pairs seen through inheritance (sampled 1/19 in quick, 1/5 in thorough): public class S inherits f from private _B
    from vp.common.harness import derive_seed as _ds

    salt_m = _ds(ctx.base_seed, 0, "c10m") % 1000003
    mod_m = 19 if ctx.quick else 5
    _enumerate_default_texts(ctx)
    _enumerate_methods(ctx, sigs, CALL_SHAPES, lambda i, j: (i * 7919 + j * 104729 + salt_m) % mod_m == 0)
    mod_c = 41 if ctx.quick else 11
    _enumerate_class_renderings(ctx, sigs, CALL_SHAPES, lambda i, j, r: (i * 7919 + j * 104729 + salt_m + len(r)) % mod_c == 0)
    mod_x = 397 if ctx.quick else 47
    _enumerate_extra_renderings(ctx, sigs, CALL_SHAPES, lambda i, j, r: (i * 7919 + j * 104729 + salt_m + 3 * len(r)) % mod_x == 0)
    _enumerate(ctx, sigs, CALL_SHAPES, "abc3", lambda i, j: True)
    ctx.res.extra["enum_complete"] = not ctx.res.budget_exhausted
    if not ctx.quick:
        # thorough: a seeded ~1.5% sample of the 1.4e9 pairs of the {a,b,c,d} x <=4 alphabet, 192 call shapes
        big = all_signatures(("a", "b", "c", "d"), 4)
        if ctx.shard == 0:
            ctx.res.extra["signatures_abcd4"] = len(big)
        salt = derive_seed(ctx.base_seed, 0, "c10") % 1000003
        _enumerate(ctx, big, CALL_SHAPES_4, "abcd4", lambda i, j: (i * 7919 + j * 104729 + salt) % 67 == 0)
