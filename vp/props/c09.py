"""C09 — Full JSON dumps conform to the published schema (docs/schema.json).

Domain (DESIGN 4/C09): the C08 generator (vp/gen/c08_pkg.py, profile all_fields) restricted to packages loaded from files
on disk — regular and namespace layouts, static and dynamic analysis —, full form, alias resolution {off, default,
implicit}, docstring parser {none, google, numpy, sphinx} (so that every section kind appears under docstring.parsed),
cwd inside/outside the search path (relative_filepath).

Oracle: jsonschema.Draft7Validator(docs/schema.json) accepts json.loads(pkg.as_json(full=True)). When the document is
rejected, every object of the tree is validated on its own (members emptied) against the branch of the schema its `kind`
selects, so that each distinct drift gets its own bucket `<object kind>:<instance path>:<keyword>[:<detail>]`; a document
that is rejected although every node passes is reported as `unlocalised`.

A tree whose full dump raises is a violation of its own (clause `dump`, bucket `raises:<Exc>@<innermost griffe frame>`): a
document that cannot be produced does not validate.
"""

from __future__ import annotations

import copy
import json
import os
import warnings

from hypothesis import strategies as st

from vp.common import bootstrap
from vp.common.harness import Fail, call, digest
from vp.gen import c08_pkg as G
from vp.props import c08

ID = "C09"
LEVEL = "exploration"
RULE = (
    "Hypothesis-generated packages of the C08 generator (profile all_fields: every object kind, every expression class, "
    "docstrings rendered for the selected parser so that all 15 parsed-section kinds occur, dataclass parameter docstrings, "
    "imports of every form) written to disk x layout {regular, namespace over two search paths} x agent {static, dynamic} x "
    "alias resolution {off, default, implicit} x parser {none, google, numpy, sphinx} x cwd {outside, inside}; the full dump is "
    "validated with Draft7Validator against docs/schema.json. non-trivial = the document holds >=4 object kinds and >=3 "
    "expression classes; distinct = set of (object kind, field) pairs + expression classes + parsed-section kinds present"
)
ASSUMPTIONS = [
    "jsonschema 4.x Draft7Validator is the reference reading of docs/schema.json",
    "loading is trusted; packages that fail to load are skipped and counted; a full dump that raises is a violation (clause dump)",
    "the schema is read from bootstrap.REPO/docs/schema.json (the tree under test), not from the web",
    "built-in modules are outside this property (it quantifies over packages loaded from files on disk)",
]
BUDGET_S = {"quick": 75.0, "thorough": 1100.0}
SHRINK_MAX_EXAMPLES = 3000

_SCHEMA_CACHE: dict = {}


def _validators():
    """(whole-document validator, {branch: validator for one node}) for the schema of the tree under test."""
    path = bootstrap.REPO / "docs" / "schema.json"
    if not path.exists():
        # scratch trees of the self-test hold only src/: the schema is then the repository's
        from pathlib import Path

        path = Path("/repo/docs/schema.json")
    key = str(path)
    if key not in _SCHEMA_CACHE:
        import jsonschema

        schema = json.loads(path.read_text())
        jsonschema.Draft7Validator.check_schema(schema)
        whole = jsonschema.Draft7Validator(schema)
        branches = {}
        for name, branch in (("alias", schema["oneOf"][0]), ("object", schema["oneOf"][1])):
            sub = copy.deepcopy(branch)
            sub["$schema"] = schema.get("$schema")
            sub["$defs"] = copy.deepcopy(schema.get("$defs", {}))
            branches[name] = jsonschema.Draft7Validator(sub)
        _SCHEMA_CACHE[key] = (whole, branches)
    return _SCHEMA_CACHE[key]


def _generic(path) -> str:
    return ".".join("[]" if isinstance(p, int) else str(p) for p in path) or "<node>"


def _leaf_errors(error):
    """Descend into oneOf/anyOf contexts: report the errors of the branch that got furthest."""
    if not error.context:
        yield error
        return
    by_branch: dict = {}
    for sub in error.context:
        by_branch.setdefault(sub.schema_path[0] if sub.schema_path else 0, []).append(sub)
    # the branch with the fewest errors is the intended one
    best = min(by_branch.values(), key=len)
    for sub in best:
        yield from _leaf_errors(sub)


def node_errors(doc: dict):
    """Validate every object of the tree on its own. Yields (object kind, generic instance path, keyword, detail, message)."""
    _whole, branches = _validators()
    stack = [doc]
    while stack:
        node = stack.pop()
        if not isinstance(node, dict):
            yield "?", "<node>", "type", type(node).__name__, f"member is not an object: {node!r}"[:200]
            continue
        kind = node.get("kind")
        members = node.get("members")
        if isinstance(members, dict):
            stack.extend(members.values())
            shallow = {**node, "members": {}}
        else:
            shallow = node
        validator = branches["alias" if kind == "alias" else "object"]
        for top in validator.iter_errors(shallow):
            for err in _leaf_errors(top):
                detail = ""
                if err.validator == "required":
                    missing = [r for r in err.validator_value if isinstance(err.instance, dict) and r not in err.instance]
                    detail = ",".join(missing)
                elif err.validator in ("type", "enum", "const"):
                    detail = f"{json.dumps(err.instance)[:60]} not {json.dumps(err.validator_value)[:80]}"
                    if err.validator == "type":
                        detail = f"{type(err.instance).__name__} not {json.dumps(err.validator_value)}"
                    elif err.validator == "enum":
                        detail = ""  # the offending value is in the message; one bucket per enumerated field
                elif err.validator == "additionalProperties":
                    detail = err.message[:80]
                # bucket by schema branch (alias / object); the concrete kind goes to the message
                branch = "alias" if kind == "alias" else "object"
                yield branch, _generic(err.absolute_path), err.validator, detail, f"[{kind}] {err.message[:300]}"


def conform(doc: dict) -> list[Fail]:
    whole, _ = _validators()
    if whole.is_valid(doc):
        return []
    fails: dict = {}
    for kind, path, keyword, detail, message in node_errors(doc):
        bucket = f"{kind}:{path}:{keyword}" + (f":{detail}" if detail else "")
        if bucket not in fails:
            fails[bucket] = Fail("schema", bucket, f"full dump rejected by docs/schema.json at {path} of an {kind}: {message}")
    if not fails:
        err = next(iter(whole.iter_errors(doc)))
        fails["unlocalised"] = Fail("schema", "unlocalised", f"document rejected although every object validates on its own: {err.message[:300]}")
    return list(fails.values())


# ----------------------------------------------------------------------------- features
def features(doc: dict) -> dict:
    f = c08.features(doc)
    pairs = set()

    def walk(o):
        for k in o:
            if k != "members":
                pairs.add(f"{o.get('kind')}.{k}")
        d = o.get("docstring")
        if isinstance(d, dict):
            for k in d:
                pairs.add(f"{o.get('kind')}.docstring.{k}")
        for p in o.get("parameters", []) or []:
            for k in p:
                pairs.add(f"parameter.{k}")
        for m in (o.get("members") or {}).values():
            if isinstance(m, dict):
                walk(m)

    walk(doc)
    f["pairs"] = pairs
    return f


# ----------------------------------------------------------------------------- check
def check_case(case, observe=None) -> list[Fail]:
    with c08._workdir(case) as root, warnings.catch_warnings():
        warnings.simplefilter("ignore")
        try:
            try:
                _loader, module, info = c08.load_generated(case, root)
            except c08._Skip as skip:
                if observe is not None:
                    observe["skip"] = skip.label
                return []
            if case.get("cwd") == "inside":
                os.chdir(info["search_paths"][0])
            elif case.get("cwd") == "root":
                os.chdir(root)
            # a full dump that cannot be produced certainly does not validate: clause `dump`
            text = call("dump", module.as_json, full=True, what="as_json(full=True)")
            doc = json.loads(text)
            if observe is not None:
                observe["doc"] = doc
            return conform(doc)
        finally:
            c08._purge([G.PKG], [str(root)])


def _cases(ctx):
    leaves = ctx.scale(5, 7)
    steer = sorted(ctx.known & set(STEERING))

    def build(agent, importable):
        return st.fixed_dictionaries(
            {
                "kind": st.just("pkg"),
                "pkg": G.packages(importable, leaves),
                "agent": st.just(agent),
                "resolve": st.sampled_from((0, 1, 2)),
                "parser": st.sampled_from(("google", "numpy", "sphinx", None)),
                "cwd": st.sampled_from(("outside", "inside", "root")),
                "steer": st.just(steer),
            },
        )

    branches = {"static": build("static", None), "dynamic": build("dynamic", True)}
    return st.sampled_from(("static", "static", "dynamic")).flatmap(branches.__getitem__)


STEERING: dict = {}
KNOWN: dict = {}


def strategy(ctx):
    return _cases(ctx), "c09"


def describe_with(observed: dict, case):
    classes = [f"agent:{case['agent']}", f"resolve:{case['resolve']}", f"parser:{case['parser']}", f"layout:{case['pkg']['layout']}", f"cwd:{case['cwd']}"]
    if "skip" in observed:
        classes.append("skip:" + observed["skip"])
        return None, classes, None
    doc = observed.get("doc")
    if doc is None:
        return None, classes, None
    f = features(doc)
    classes += [f"objkind:{k}" for k in sorted(k for k in f["kinds"] if k)]
    classes += [f"expr:{c}" for c in sorted(f["exprs"])]
    classes += [f"section:{s}" for s in sorted(s for s in f["sections"] if s)]
    for flag, label in (("aliases", "has:alias"), ("no_lineno", "has:no-lineno"), ("odd_filepath", "has:list-or-null-filepath"), ("param_doc", "has:parameter-docstring")):
        if f[flag]:
            classes.append(label)
    key = sample = None
    kinds = {k for k in f["kinds"] if k}
    if len(kinds) >= 4 and len(f["exprs"]) >= 3:
        key = digest([sorted(f["pairs"]), sorted(f["exprs"]), sorted(s for s in f["sections"] if s)])
        sample = {
            "agent": case["agent"],
            "resolve": case["resolve"],
            "parser": case["parser"],
            "layout": case["pkg"]["layout"],
            "object_kinds": sorted(kinds),
            "expr_classes": sorted(f["exprs"]),
            "sections": sorted(s for s in f["sections"] if s),
            "fields": len(f["pairs"]),
        }
    return key, classes, sample


def run_shard(ctx) -> None:
    box: dict = {}

    def checked(case):
        box.clear()
        return check_case(case, box)

    def describe(case):
        return describe_with(dict(box), case)

    strat, salt = strategy(ctx)
    ctx.run_hypothesis(strat, checked, max_examples=ctx.scale(120, 2500), describe=describe, salt=salt)
