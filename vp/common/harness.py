"""Shared harness: per-shard context, failure recording, Hypothesis driver, traceback attribution.

A property module (vp/props/cNN.py) provides:

    ID, RULE, ASSUMPTIONS            strings / list of strings for the evidence file
    run_shard(ctx)                   the search; calls ctx.case(...) and ctx.fail(...)  (or ctx.run_hypothesis)
    check_case(case) -> list[Fail]   pure re-run of the property on one JSON-serialisable case (used by
                                     --replay, by the known-witness tier and by the shrinker)
    strategy(ctx) -> SearchStrategy  (optional; needed for Hypothesis shrinking of a bucket)
    KNOWN = {slug: predicate(case, fail) -> bool}   (optional backstop predicates for known findings)
    EXHAUSTIVE_NOTE                  (optional) text describing a completely enumerated sub-space
"""

from __future__ import annotations

import hashlib
import json
import os
import shutil
import sys
import time
import traceback
from collections import Counter
from dataclasses import dataclass, field
from pathlib import Path
from typing import Any, Callable, Iterable

from vp.common.bootstrap import SRC, HarnessError

NSHARDS_DEFAULT = 16


@dataclass
class Fail:
    """One failed clause on one case."""

    clause: str  # which clause of the property (stable identifier)
    kind: str  # mismatch kind (stable identifier, used for bucketing)
    message: str  # human readable: expected vs got
    detail: Any = None

    @property
    def bucket(self) -> str:
        return f"{self.clause}/{self.kind}"

    def as_dict(self) -> dict:
        return {"clause": self.clause, "kind": self.kind, "message": self.message, "detail": self.detail}


def digest(obj: Any) -> str:
    if not isinstance(obj, (str, bytes)):
        obj = json.dumps(obj, sort_keys=True, default=repr)
    if isinstance(obj, str):
        obj = obj.encode("utf-8", "surrogatepass")
    return hashlib.sha1(obj).hexdigest()[:16]


def derive_seed(seed: int, shard: int, salt: str = "") -> int:
    h = hashlib.sha256(f"{seed}:{shard}:{salt}".encode()).digest()
    return int.from_bytes(h[:8], "big")


def griffe_frames(tb) -> list[str]:
    """Frames of a traceback that lie in the Griffe source tree (innermost last)."""
    out = []
    root = str(SRC)
    for fs in traceback.extract_tb(tb):
        if fs.filename.startswith(root):
            out.append(f"{os.path.relpath(fs.filename, root)}:{fs.name}")
    return out


def exc_fail(clause: str, exc: BaseException, what: str = "") -> Fail:
    """Turn an exception that escaped from Griffe into a Fail; re-raise as HarnessError if Griffe is not in
    the traceback at all (then it is a bug of the machinery)."""
    frames = griffe_frames(exc.__traceback__)
    if not frames:
        raise HarnessError(f"exception outside Griffe while checking {clause}: {exc!r}") from exc
    inner = frames[-1]
    return Fail(
        clause,
        f"raises:{type(exc).__name__}@{inner}",
        f"{what} raised {type(exc).__name__}: {str(exc)[:300]} (innermost griffe frame {inner})",
    )


class GriffeRaised(Exception):
    def __init__(self, fail: Fail):
        super().__init__(fail.message)
        self.fail = fail


def call(clause: str, fn: Callable, *args, what: str = "", allowed: tuple = (), **kwargs):
    """Call into Griffe; any exception not in `allowed` becomes GriffeRaised(Fail)."""
    try:
        return fn(*args, **kwargs)
    except allowed:
        raise
    except RecursionError as exc:
        raise GriffeRaised(Fail(clause, "raises:RecursionError", f"{what or fn} raised RecursionError")) from exc
    except Exception as exc:  # noqa: BLE001
        raise GriffeRaised(exc_fail(clause, exc, what or getattr(fn, "__name__", str(fn)))) from exc


@dataclass
class ShardResult:
    evaluations: int = 0
    nontrivial: set = field(default_factory=set)
    nontrivial_counted: int = 0  # enumerations whose cases are distinct by construction (each index visited once)
    classes: Counter = field(default_factory=Counter)
    samples: list = field(default_factory=list)
    failures: dict = field(default_factory=dict)  # bucket -> {"fail":..., "case":..., "count": n, "seed":..}
    excluded: Counter = field(default_factory=Counter)
    known_hits: Counter = field(default_factory=Counter)
    budget_exhausted: bool = False
    extra: dict = field(default_factory=dict)
    harness_error: str | None = None


class Ctx:
    def __init__(self, prop_id: str, tier: str, seed: int, shard: int, nshards: int, known: set[str], budget_s: float):
        self.prop_id = prop_id
        self.tier = tier
        self.base_seed = seed
        self.shard = shard
        self.nshards = nshards
        self.known = known  # slugs of findings listed in known_findings.txt for this property
        self.seed = derive_seed(seed, shard)
        self.res = ShardResult()
        self.t0 = time.monotonic()
        self.budget_s = budget_s
        self._tmp: Path | None = None
        self.max_samples = 6
        self.known_preds: dict = {}
        self._sample_keys: set = set()

    # ---- helpers
    def scale(self, quick, thorough):
        return quick if self.tier == "quick" else thorough

    @property
    def quick(self) -> bool:
        return self.tier == "quick"

    def out_of_budget(self) -> bool:
        if time.monotonic() - self.t0 > self.budget_s:
            self.res.budget_exhausted = True
            return True
        return False

    @property
    def tmp(self) -> Path:
        if self._tmp is None:
            base = Path(os.environ.get("VERIF_TMP") or ("/dev/shm" if os.access("/dev/shm", os.W_OK) else "/var/tmp"))
            self._tmp = base / f"verif-{self.prop_id}-{os.getpid()}-{self.shard}"
            shutil.rmtree(self._tmp, ignore_errors=True)
            self._tmp.mkdir(parents=True)
        return self._tmp

    def cleanup(self) -> None:
        if self._tmp is not None:
            shutil.rmtree(self._tmp, ignore_errors=True)
            self._tmp = None

    # ---- recording
    def case(self, nontrivial_key: Any = None, classes: Iterable[str] = (), sample: Any = None, n: int = 1, enumerated: bool = False) -> None:
        """Record one evaluated case. `nontrivial_key` (anything digestable) iff the case is non-trivial.
        enumerated=True: the caller guarantees that this case is visited exactly once in the whole run
        (index-sharded enumeration), so it is counted instead of being kept in the digest set."""
        r = self.res
        r.evaluations += n
        if nontrivial_key is not None:
            if enumerated:
                r.nontrivial_counted += 1
            else:
                r.nontrivial.add(nontrivial_key if isinstance(nontrivial_key, (int,)) else digest(nontrivial_key))
        for c in classes:
            r.classes[c] += 1
        if sample is not None and len(r.samples) < self.max_samples:
            # spread samples over the run: keep the first few non-trivial ones
            if nontrivial_key is not None or r.evaluations > 50:
                k = digest(sample)
                if k not in self._sample_keys:
                    self._sample_keys.add(k)
                    r.samples.append(sample)

    def excluded(self, slug: str, n: int = 1) -> None:
        self.res.excluded[slug] += n

    def fail(self, f: Fail, case: Any) -> None:
        # per-case attribution to a listed known finding (narrow predicates; anything else stays a failure)
        for slug, pred in self.known_preds.items():
            try:
                hit = pred(case, f)
            except Exception:  # noqa: BLE001
                hit = False
            if hit:
                self.res.known_hits[slug] += 1
                return
        b = f.bucket
        entry = self.res.failures.get(b)
        size = len(json.dumps(case, default=repr))
        if entry is None:
            self.res.failures[b] = {"fail": f.as_dict(), "case": case, "count": 1, "size": size, "shard": self.shard}
        else:
            entry["count"] += 1
            if size < entry["size"]:
                entry.update(fail=f.as_dict(), case=case, size=size, shard=self.shard)

    # ---- Hypothesis driver
    def run_hypothesis(
        self,
        strategy,
        check_case: Callable[[Any], list[Fail]],
        max_examples: int,
        describe: Callable[[Any], tuple[Any, Iterable[str], Any]] | None = None,
        salt: str = "",
    ) -> None:
        """Search phase (no shrinking, failures are collected, the search continues).

        describe(case) -> (nontrivial_key_or_None, classes, sample_or_None)
        """
        import hypothesis
        from hypothesis import HealthCheck, Phase, given, settings

        ctx = self

        @hypothesis.seed(derive_seed(self.base_seed, self.shard, salt))
        @settings(
            max_examples=max_examples,
            database=None,
            deadline=None,
            derandomize=False,
            report_multiple_bugs=False,
            phases=[Phase.generate],
            suppress_health_check=list(HealthCheck),
        )
        @given(strategy)
        def test(case):
            if ctx.out_of_budget():
                raise _BudgetStop  # ends the Hypothesis run (no shrink phase is enabled); caught below
            fails = run_check(check_case, case)
            if describe is not None:
                key, classes, sample = describe(case)
            else:
                key, classes, sample = case, (), case
            ctx.case(key, classes, sample)
            for f in fails:
                ctx.fail(f, case)

        try:
            test()
        except _BudgetStop:
            pass
        except BaseException as exc:  # noqa: BLE001
            # Hypothesis may wrap the stop signal (e.g. in a Flaky/exception group) when it replays the last example
            if not _contains_budget_stop(exc):
                raise


class _BudgetStop(BaseException):
    """Raised inside a Hypothesis test when the shard's wall budget is used up (never a verdict)."""


def _contains_budget_stop(exc: BaseException) -> bool:
    seen = set()
    stack = [exc]
    while stack:
        e = stack.pop()
        if id(e) in seen or e is None:
            continue
        seen.add(id(e))
        if isinstance(e, _BudgetStop):
            return True
        stack += [e.__cause__, e.__context__]
        stack += list(getattr(e, "exceptions", ()) or ())
    return False


def run_check(check_case: Callable[[Any], list[Fail]], case: Any) -> list[Fail]:
    """Run a property function; attribute escaping exceptions by traceback."""
    try:
        return list(check_case(case) or [])
    except GriffeRaised as gr:
        return [gr.fail]
    except HarnessError:
        raise
    except RecursionError as exc:
        if griffe_frames(exc.__traceback__):
            return [Fail("total", "raises:RecursionError", "RecursionError through Griffe")]
        raise HarnessError(f"RecursionError in harness: {exc!r}") from exc
    except Exception as exc:  # noqa: BLE001
        return [exc_fail("total", exc, "property function")]
