"""Import-root bootstrap: make `griffe` / `_griffe` come from the working tree, never from site-packages.

The source root is /repo/src unless VERIF_SRC is set (used only by the sensitivity self-test and by
seeded-change trials that run against scratch copies).
"""

from __future__ import annotations

import os
import sys
from pathlib import Path

VERIF = Path(__file__).resolve().parents[2]
SRC = Path(os.environ.get("VERIF_SRC", "/repo/src")).resolve()
REPO = SRC.parent
DEPS = VERIF / ".deps"


class HarnessError(Exception):
    """Raised for problems of the machinery itself (exit code 2, never a VIOLATION)."""


def setup() -> None:
    src = str(SRC)
    # Purge anything already imported from elsewhere.
    for name in list(sys.modules):
        if name == "griffe" or name.startswith("griffe.") or name == "_griffe" or name.startswith("_griffe."):
            mod = sys.modules[name]
            f = getattr(mod, "__file__", "") or ""
            if not f.startswith(src):
                del sys.modules[name]
    if src in sys.path:
        sys.path.remove(src)
    sys.path.insert(0, src)
    if DEPS.is_dir() and str(DEPS) not in sys.path:
        sys.path.append(str(DEPS))
    import _griffe
    import griffe

    for mod in (griffe, _griffe):
        if not (mod.__file__ or "").startswith(src + os.sep):
            raise HarnessError(f"{mod.__name__} imported from {mod.__file__}, expected under {src}")
    # Silence griffe's logger: generated inputs legitimately trigger thousands of warnings.
    import logging

    logging.getLogger("griffe").setLevel(logging.CRITICAL + 10)
    logging.getLogger("_griffe").setLevel(logging.CRITICAL + 10)
    logging.disable(logging.CRITICAL)


def subprocess_env() -> dict[str, str]:
    env = dict(os.environ)
    env["PYTHONPATH"] = str(SRC) + (os.pathsep + env["PYTHONPATH"] if env.get("PYTHONPATH") else "")
    env["PYTHONHASHSEED"] = "0"
    env["PYTHONDONTWRITEBYTECODE"] = "1"
    return env
