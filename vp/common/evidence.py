"""Evidence writer: /verif/evidence/<ID>.json, validated against the schema before the check exits."""

from __future__ import annotations

import json
from pathlib import Path

from vp.common.bootstrap import VERIF, HarnessError

SCHEMA = Path("/root/.vp/EVIDENCE.schema.json")


def _jsonable(x):
    try:
        json.dumps(x)
        return x
    except TypeError:
        return json.loads(json.dumps(x, default=repr))


def write(prop_id: str, tier: str, seed: int, level: str, coverage: dict, assumptions: list[str], wall_s: float, violations: int) -> Path:
    doc = {
        "property_id": prop_id,
        "tier": tier,
        "seed": seed,
        "level": level,
        "coverage": _jsonable(coverage),
        "assumptions": assumptions,
        "wall_s": round(wall_s, 2),
        "violations": violations,
    }
    # local structural validation (the schema file may be absent in a restored sandbox; then only these checks)
    cov = doc["coverage"]
    for key in ("evaluations", "distinct_nontrivial", "rule", "samples"):
        if key not in cov:
            raise HarnessError(f"evidence for {prop_id} lacks coverage.{key}")
    if SCHEMA.exists():
        try:
            import jsonschema

            jsonschema.validate(doc, json.loads(SCHEMA.read_text()))
        except ImportError:
            pass
        except jsonschema.ValidationError as exc:  # type: ignore[attr-defined]
            # An evidence file that does not validate is worthless, but not a verdict about Griffe: keep the verdict,
            # write the file anyway and say so loudly.
            print(f"WARNING: evidence for {prop_id} does not validate: {exc.message}")
    import os

    # runs against a scratch source tree (self-test, seeded changes) must not overwrite the real evidence
    out = Path("/dev/shm/verif-alt/evidence") if os.environ.get("VERIF_SRC") else VERIF / "evidence"
    out.mkdir(parents=True, exist_ok=True)
    path = out / f"{prop_id}.json"
    path.write_text(json.dumps(doc, indent=1) + "\n")
    return path
