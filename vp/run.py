#!/venv/bin/python
"""Runner: python /verif/vp/run.py <ID> --tier quick|thorough [--replay FILE] [--shards N] [--no-shrink]

exit 0  property held on everything explored (KNOWN-FINDING lines possible)
exit 1  "VIOLATION property=<ID> replay=<path>" printed for every unlisted violation bucket
exit 2  harness error
"""

from __future__ import annotations

import argparse
import importlib
import json
import multiprocessing as mp
import os
import re
import sys
import time
import traceback
from collections import Counter
from pathlib import Path

VERIF = Path(__file__).resolve().parents[1]
if str(VERIF) not in sys.path:
    sys.path.insert(0, str(VERIF))


def _reexec_with_hashseed() -> None:
    if os.environ.get("PYTHONHASHSEED") != "0":
        env = dict(os.environ)
        env["PYTHONHASHSEED"] = "0"
        env.setdefault("PYTHONDONTWRITEBYTECODE", "1")
        os.execve(sys.executable, [sys.executable, *sys.argv], env)


PROPS = {f"C{n:02d}": f"vp.props.c{n:02d}" for n in range(1, 21)}


# --------------------------------------------------------------------------- known findings
def load_known(prop_id: str) -> tuple[dict[str, dict], list[dict]]:
    """Parse /verif/known_findings.txt. Returns ({slug: entry} for `finding:` lines, [entries] for `fixed:`)."""
    findings: dict[str, dict] = {}
    fixed: list[dict] = []
    lines: list[str] = []
    for path in [VERIF / "known_findings.txt", *sorted((VERIF / "known_findings.d").glob("*.txt"))]:
        if path.exists():
            lines += path.read_text().splitlines()
    for line in lines:
        line = line.strip()
        if not line or line.startswith("#"):
            continue
        m = re.match(r"^(finding|fixed):\s+property=(\S+)\s+(.*)$", line)
        if not m or m.group(2) != prop_id:
            continue
        kind, _, rest = m.groups()
        fields = dict(re.findall(r"(\w+)=(\S+)", rest.split("::")[0]))
        desc = rest.split("::", 1)[1].strip() if "::" in rest else rest
        entry = {"kind": kind, "desc": desc, **fields}
        if kind == "finding":
            findings[fields.get("id", desc[:30])] = entry
        else:
            fixed.append(entry)
    return findings, fixed


# --------------------------------------------------------------------------- workers
def _worker(args):
    prop_id, tier, seed, shard, nshards, known, budget = args
    from vp.common import bootstrap

    try:
        bootstrap.setup()
        from vp.common.harness import Ctx

        mod = importlib.import_module(PROPS[prop_id])
        ctx = Ctx(prop_id, tier, seed, shard, nshards, set(known), budget)
        ctx.known_preds = {k: v for k, v in getattr(mod, "KNOWN", {}).items() if k in ctx.known}
        try:
            mod.run_shard(ctx)
        finally:
            ctx.cleanup()
        return ctx.res
    except BaseException as exc:  # noqa: BLE001
        from vp.common.harness import ShardResult

        r = ShardResult()
        r.harness_error = "".join(traceback.format_exception(exc))[-4000:]
        return r


def _shrink_worker(prop_id, tier, seed, shard, nshards, known, bucket, out_path, max_examples):
    """Re-find a failure of `bucket` with the same seed as the shard that found it and let Hypothesis shrink it.
    Every failing case seen is written to out_path (the last one written is the smallest so far)."""
    from vp.common import bootstrap

    bootstrap.setup()
    import hypothesis
    from hypothesis import HealthCheck, Phase, given, settings

    from vp.common.harness import Ctx, derive_seed, run_check

    mod = importlib.import_module(PROPS[prop_id])
    ctx = Ctx(prop_id, tier, seed, shard, nshards, set(known), 1e9)
    strat_info = mod.strategy(ctx)
    if isinstance(strat_info, tuple):
        strat, salt = strat_info
    else:
        strat, salt = strat_info, ""

    @hypothesis.seed(derive_seed(seed, shard, salt))
    @settings(
        max_examples=max_examples,
        database=None,
        deadline=None,
        report_multiple_bugs=False,
        phases=[Phase.generate, Phase.shrink],
        suppress_health_check=list(HealthCheck),
    )
    @given(strat)
    def test(case):
        fails = run_check(mod.check_case, case)
        for f in fails:
            if f.bucket == bucket:
                tmp = out_path + ".tmp"
                with open(tmp, "w") as fh:
                    json.dump({"fail": f.as_dict(), "case": case}, fh, default=repr)
                os.replace(tmp, out_path)
                raise AssertionError(bucket)

    try:
        test()
    except BaseException:  # noqa: BLE001
        pass
    finally:
        ctx.cleanup()


def shrink_bucket(prop_id, tier, seed, entry, nshards, known, bucket, timeout_s, max_examples) -> dict:
    out = f"/dev/shm/verif-shrink-{os.getpid()}-{abs(hash(bucket))}.json"
    p = mp.get_context("fork").Process(
        target=_shrink_worker,
        args=(prop_id, tier, seed, entry["shard"], nshards, known, bucket, out, max_examples),
    )
    p.start()
    p.join(timeout_s)
    if p.is_alive():
        p.terminate()
        p.join(5)
        if p.is_alive():
            p.kill()
    try:
        with open(out) as fh:
            got = json.load(fh)
        os.unlink(out)
        if len(json.dumps(got["case"])) <= entry["size"]:
            return {**entry, "fail": got["fail"], "case": got["case"], "shrunk": True}
    except (OSError, ValueError):
        pass
    return {**entry, "shrunk": False}


# --------------------------------------------------------------------------- main
def write_replay(prop_id: str, bucket: str, entry: dict, seed: int, tier: str) -> Path:
    from vp.common.harness import digest

    d = Path("/dev/shm/verif-alt/replays") if os.environ.get("VERIF_SRC") else VERIF / "replays"
    d.mkdir(parents=True, exist_ok=True)
    path = d / f"{prop_id}-{digest([bucket, entry['case']])}.json"
    doc = {
        "property": prop_id,
        "bucket": bucket,
        "fail": entry["fail"],
        "case": entry["case"],
        "seed": seed,
        "tier": tier,
        "shrunk": entry.get("shrunk", False),
        "count_in_run": entry.get("count"),
    }
    path.write_text(json.dumps(doc, indent=1, default=repr) + "\n")
    return path


def attribute_known(mod, findings: dict, case, fail_dict) -> str | None:
    from vp.common.harness import Fail

    preds = getattr(mod, "KNOWN", {})
    f = Fail(fail_dict["clause"], fail_dict["kind"], fail_dict["message"], fail_dict.get("detail"))
    for slug, pred in preds.items():
        if slug in findings:
            try:
                if pred(case, f):
                    return slug
            except Exception:  # noqa: BLE001
                continue
    return None


def do_replay(prop_id: str, path: str) -> int:
    from vp.common import bootstrap

    bootstrap.setup()
    from vp.common.harness import run_check

    mod = importlib.import_module(PROPS[prop_id])
    doc = json.loads(Path(path).read_text())
    fails = run_check(mod.check_case, doc["case"])
    if fails:
        for f in fails:
            print(f"  {f.bucket}: {f.message}")
        print(f"VIOLATION property={prop_id} replay={path}")
        return 1
    print(f"replay {path}: property holds on this case")
    return 0


def main() -> int:
    ap = argparse.ArgumentParser()
    ap.add_argument("prop")
    ap.add_argument("--tier", default=os.environ.get("VERIF_TIER", "quick"), choices=["quick", "thorough"])
    ap.add_argument("--replay")
    ap.add_argument("--shards", type=int, default=int(os.environ.get("VERIF_SHARDS", "16")))
    ap.add_argument("--no-shrink", action="store_true")
    ap.add_argument("--budget", type=float, default=None, help="wall-clock budget per shard in seconds")
    args = ap.parse_args()
    prop_id = args.prop.upper()
    if prop_id not in PROPS:
        print(f"unknown property {prop_id}", file=sys.stderr)
        return 2
    _reexec_with_hashseed()
    try:
        seed = int(os.environ.get("VERIF_SEED", "1") or "1")
    except ValueError:
        seed = 1

    if args.replay:
        return do_replay(prop_id, args.replay)

    t0 = time.time()
    from vp.common import bootstrap

    bootstrap.setup()
    from vp.common.harness import run_check
    from vp.common import evidence as ev

    mod = importlib.import_module(PROPS[prop_id])
    findings, fixed = load_known(prop_id)
    known_slugs = sorted(findings)
    tier = args.tier
    budget = args.budget or getattr(mod, "BUDGET_S", {"quick": 90.0, "thorough": 1500.0})[tier]

    violations: list[tuple[str, Path]] = []
    known_lines: list[str] = []
    witness_log: list[dict] = []

    # ---- tier 0: committed witnesses (known findings must still be recognised; fixed ones must pass)
    for slug, entry in findings.items():
        w = entry.get("witness")
        if not w:
            known_lines.append(f"KNOWN-FINDING: property={prop_id} {slug}: {entry['desc']}")
            continue
        doc = json.loads((VERIF / w).read_text())
        fails = run_check(mod.check_case, doc["case"])
        has_pred = slug in getattr(mod, "KNOWN", {})
        still = [f for f in fails if (not has_pred) or attribute_known(mod, {slug: entry}, doc["case"], f.as_dict()) == slug]
        witness_log.append({"finding": slug, "witness": w, "still_fails": bool(still)})
        if still:
            known_lines.append(f"KNOWN-FINDING: property={prop_id} {slug}: {entry['desc']}")
        other = [f for f in fails if f not in still and not attribute_known(mod, findings, doc["case"], f.as_dict())]
        for f in other:
            p = write_replay(prop_id, f.bucket, {"fail": f.as_dict(), "case": doc["case"]}, seed, tier)
            violations.append((f.bucket, p))
    for entry in fixed:
        w = entry.get("witness")
        if not w:
            continue
        doc = json.loads((VERIF / w).read_text())
        fails = run_check(mod.check_case, doc["case"])
        witness_log.append({"fixed": entry.get("commit", "?"), "witness": w, "still_fails": bool(fails)})
        for f in fails:
            if attribute_known(mod, findings, doc["case"], f.as_dict()):
                continue
            p = write_replay(prop_id, f.bucket, {"fail": f.as_dict(), "case": doc["case"]}, seed, tier)
            violations.append((f.bucket, p))
    # any other regression replays
    reg_dir = VERIF / "replays" / "regress" / prop_id
    n_regress = 0
    if reg_dir.is_dir():
        for rp in sorted(reg_dir.glob("*.json")):
            doc = json.loads(rp.read_text())
            n_regress += 1
            for f in run_check(mod.check_case, doc["case"]):
                if attribute_known(mod, findings, doc["case"], f.as_dict()):
                    continue
                p = write_replay(prop_id, f.bucket, {"fail": f.as_dict(), "case": doc["case"]}, seed, tier)
                violations.append((f.bucket, p))

    # ---- search
    nshards = max(1, args.shards)
    jobs = [(prop_id, tier, seed, k, nshards, known_slugs, budget) for k in range(nshards)]
    if nshards == 1:
        results = [_worker(jobs[0])]
    else:
        with mp.get_context("fork").Pool(nshards) as pool:
            results = pool.map(_worker, jobs, chunksize=1)

    herr = [r.harness_error for r in results if r.harness_error]
    if herr:
        print("HARNESS ERROR:\n" + herr[0], file=sys.stderr)
        return 2

    evaluations = sum(r.evaluations for r in results)
    nontrivial = set()
    classes: Counter = Counter()
    excluded: Counter = Counter()
    samples = []
    extra: dict = {}
    for r in results:
        nontrivial |= r.nontrivial
        classes.update(r.classes)
        excluded.update(r.excluded)
        for s in r.samples:
            if len(samples) < 8:
                samples.append(s)
        for k, v in r.extra.items():
            if k == "enum_complete":
                continue
            if isinstance(v, (int, float)) and not isinstance(v, bool):
                extra[k] = extra.get(k, 0) + v
            else:
                extra[k] = v
    n_nontrivial = len(nontrivial) + sum(r.nontrivial_counted for r in results)
    buckets: dict[str, dict] = {}
    for r in results:
        for b, e in r.failures.items():
            cur = buckets.get(b)
            if cur is None:
                buckets[b] = dict(e)
            else:
                cur["count"] += e["count"]
                if e["size"] < cur["size"]:
                    cnt = cur["count"]
                    cur.update(e)
                    cur["count"] = cnt

    # ---- attribute / shrink / report
    known_hits: Counter = Counter()
    for r in results:
        known_hits.update(r.known_hits)
    for b in sorted(buckets):
        e = buckets[b]
        slug = attribute_known(mod, findings, e["case"], e["fail"])
        if slug:
            known_hits[slug] += e["count"]
            continue
        if not args.no_shrink and hasattr(mod, "strategy"):
            e = shrink_bucket(
                prop_id, tier, seed, e, nshards, known_slugs, b,
                timeout_s=45 if tier == "quick" else 280,
                max_examples=getattr(mod, "SHRINK_MAX_EXAMPLES", 20000),
            )
            slug = attribute_known(mod, findings, e["case"], e["fail"])
            if slug:
                known_hits[slug] += e["count"]
                continue
        p = write_replay(prop_id, b, e, seed, tier)
        violations.append((b, p))
        print(f"  bucket {b} (x{e['count']}): {e['fail']['message'][:600]}")
    for slug, n in known_hits.items():
        line = f"KNOWN-FINDING: property={prop_id} {slug}: {findings[slug]['desc']}"
        if line not in known_lines:
            known_lines.append(line)

    for line in known_lines:
        print(line)
    for b, p in violations:
        print(f"VIOLATION property={prop_id} replay={p}")

    wall = time.time() - t0
    cov = {
        "evaluations": evaluations,
        "distinct_nontrivial": n_nontrivial,
        "rule": mod.RULE,
        "samples": samples,
        "classes": dict(sorted(classes.items())),
        "excluded_known": dict(excluded),
        "known_findings_hit_in_search": dict(known_hits),
        "witness_tier": witness_log,
        "regression_replays": n_regress,
        "shards": nshards,
        "budget_exhausted": any(r.budget_exhausted for r in results),
        "violation_buckets": [b for b, _ in violations],
        **extra,
    }
    note = getattr(mod, "EXHAUSTIVE_NOTE", None)
    if note:
        cov["exhaustive_subspace"] = note[tier] if isinstance(note, dict) else note
        # a module may report per shard that its enumerated part completed (extra["enum_complete"]); then a budget
        # cut in a later sampled phase does not invalidate the exhaustiveness of the enumerated sub-space
        flags = [r.extra.get("enum_complete") for r in results]
        if all(f is not None for f in flags):
            complete = all(bool(f) for f in flags)
        else:
            complete = not cov["budget_exhausted"]
        cov["exhaustive"] = bool(getattr(mod, "EXHAUSTIVE", False)) and complete
    ev.write(prop_id, tier, seed, getattr(mod, "LEVEL", "exploration"), cov, list(mod.ASSUMPTIONS), wall, len(violations))
    print(
        f"{prop_id} tier={tier} seed={seed}: evaluations={evaluations} distinct_nontrivial={n_nontrivial} "
        f"violations={len(violations)} known={len(known_lines)} wall={wall:.1f}s"
        + (" (budget exhausted: inconclusive beyond explored cases)" if cov["budget_exhausted"] else "")
    )
    return 1 if violations else 0


if __name__ == "__main__":
    try:
        rc = main()
    except SystemExit:
        raise
    except BaseException:  # noqa: BLE001
        traceback.print_exc()
        rc = 2
    sys.exit(rc)
