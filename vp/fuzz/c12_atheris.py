"""C12 — Atheris (libFuzzer) coverage-guided target and its driver.

As a script (sub-process started by `run`, thorough tier, shard 0 only):

    python vp/fuzz/c12_atheris.py <corpus dir> -runs=N -seed=S -max_len=400 [-dict=FILE] ...
    environment: C12_ATHERIS_OUT=<dir>  (failing cases are written there as JSON, one file per failure bucket)
                 VERIF_SRC            (source root, as everywhere)

Input decoding (bytes -> JSON case of vp/props/c12.py):
    byte 0 bit 0 = 0  "raw":  style = (byte0 >> 1) % 3, option mask = byte 1, parent template = byte 2,
                              text = rest decoded as UTF-8 (errors replaced, so never a lone surrogate); ONE parse
    byte 0 bit 0 = 1  "soup": style = (byte0 >> 1) % 3, Google option mask = byte 1, rest -> vp.gen.c12_soup.decode
                              (structure-aware: the same fragment grammar as the Hypothesis search)
The oracle is vp.props.c12.check_case itself. A failing input does not stop the fuzzer: the decoded case is written to
C12_ATHERIS_OUT (smallest case per bucket) and fuzzing continues, so one run reports every bucket it meets.
Atheris has no fork support here and `atexit` handlers do not run: everything is written at the time it is found.
"""

from __future__ import annotations

import json
import os
import re
import shutil
import subprocess
import sys
from pathlib import Path

VERIF = Path(__file__).resolve().parents[2]
CORPUS = VERIF / "corpus" / "c12"
MAX_LEN = 400


def decode_input(data: bytes) -> dict:
    from vp.gen import c12_soup as G

    b0 = data[0] if len(data) > 0 else 0
    b1 = data[1] if len(data) > 1 else 0
    style = G.STYLES[(b0 >> 1) % 3]
    if b0 & 1:
        case = G.decode(data[2:])
        case["style"] = style
        case["gmasks"] = [b1]
        return case
    b2 = data[2] if len(data) > 2 else 0
    names = G.STYLE_OPTS[style]
    opts = {n: bool((b1 >> i) & 1) for i, n in enumerate(names)}
    text = data[3:].decode("utf-8", "replace")
    return {"parent": G.PARENT_IDS[b2 % len(G.PARENT_IDS)], "text": text, "style": style, "opts": opts}


def encode_raw(style: str, opts: dict, parent: str, text: str) -> bytes:
    """Inverse of the raw branch of decode_input (used to build the seed corpus)."""
    from vp.gen import c12_soup as G

    names = G.STYLE_OPTS[style]
    mask = sum(1 << i for i, n in enumerate(names) if opts.get(n))
    return bytes([G.STYLES.index(style) << 1, mask, G.PARENT_IDS.index(parent)]) + text.encode("utf-8")


def dictionary_entries() -> list[str]:
    from vp.gen import c12_soup as G

    toks: list[str] = []
    for kw in G.KEYWORDS:
        toks += [kw.capitalize() + ":\n    ", kw.capitalize() + "\n" + "-" * len(kw) + "\n", kw]
    toks += [f":{f} " for f in G.SPHINX_FIELDS if f] + [f":{f}:" for f in G.SPHINX_FIELDS if f]
    toks += ["\n\n", "\n    ", "\n        ", "----------\n", " : ", " (int): ", ": ", ">>> ", "```", "# doctest: +SKIP", "<BLANKLINE>", ", optional", ", default ",
             "{1, 2}", "*args", "**kw", "tuple[int, str]", "a :\n", "b :\n", ":\n", "await ", "yield ", "lambda: ", " := ", " for i in ", " if b else "]  # fmt: skip
    out = []
    for t in dict.fromkeys(toks):
        out.append('"' + "".join(ch if 32 <= ord(ch) < 127 and ch not in '"\\' else f"\\x{ord(ch):02x}" for ch in t if ord(ch) < 256) + '"')
    return out


# ------------------------------------------------------------------------------------------------ target (sub-process)
def _target_main() -> None:
    sys.path.insert(0, str(VERIF))
    src = str(Path(os.environ.get("VERIF_SRC", "/repo/src")).resolve())
    sys.path.insert(0, src)
    deps = str(VERIF / ".deps")
    if deps not in sys.path:
        sys.path.append(deps)
    import atheris

    with atheris.instrument_imports(include=["_griffe"]):
        import _griffe  # noqa: F401
        import _griffe.docstrings.google  # noqa: F401
        import _griffe.docstrings.numpy  # noqa: F401
        import _griffe.docstrings.parsers  # noqa: F401
        import _griffe.docstrings.sphinx  # noqa: F401
        import _griffe.docstrings.utils  # noqa: F401
        import griffe  # noqa: F401
    from vp.common import bootstrap

    bootstrap.setup()
    from vp.common.harness import digest, run_check
    from vp.props import c12

    out = Path(os.environ["C12_ATHERIS_OUT"])
    out.mkdir(parents=True, exist_ok=True)
    best: dict[str, int] = {}
    counter = {"execs": 0, "failing_inputs": 0}

    def test_one_input(data: bytes) -> None:
        counter["execs"] += 1
        case = decode_input(data)
        fails = run_check(c12.check_case, case)  # HarnessError propagates: the fuzzer stops, the driver reports exit 2
        if not fails:
            return
        counter["failing_inputs"] += 1
        size = len(json.dumps(case))
        for f in fails:
            b = f.bucket
            if b in best and best[b] <= size:
                continue
            best[b] = size
            tmp = out / (digest(b) + ".tmp")
            tmp.write_text(json.dumps({"bucket": b, "fail": f.as_dict(), "case": case, "input_hex": data.hex()}))
            os.replace(tmp, out / (digest(b) + ".json"))

    atheris.Setup(sys.argv, test_one_input)
    atheris.Fuzz()


# ------------------------------------------------------------------------------------------------ driver (runner side)
def available() -> bool:
    deps = str(VERIF / ".deps")
    env = dict(os.environ)
    env["PYTHONPATH"] = deps + (os.pathsep + env["PYTHONPATH"] if env.get("PYTHONPATH") else "")
    try:
        return subprocess.run([sys.executable, "-c", "import atheris"], env=env, capture_output=True, timeout=60).returncode == 0
    except Exception:  # noqa: BLE001
        return False


def _unlimit() -> None:
    """The worker process caps its address space (vp/props/c12.py); the fuzzer sub-process gets the hard limit back."""
    try:
        import resource

        _soft, hard = resource.getrlimit(resource.RLIMIT_AS)
        resource.setrlimit(resource.RLIMIT_AS, (hard, hard))
    except Exception:  # noqa: BLE001, S110
        pass


def _one_run(ctx, name: str, corpus: Path, runs: int, max_time: int, seed: int, dict_file: Path) -> dict:
    from vp.common import bootstrap
    from vp.common.bootstrap import HarnessError
    from vp.common.harness import Fail

    out = ctx.tmp / f"atheris-out-{name}"
    out.mkdir(parents=True, exist_ok=True)
    env = bootstrap.subprocess_env()
    env["C12_ATHERIS_OUT"] = str(out)
    env["VERIF_SRC"] = str(bootstrap.SRC)
    cmd = [sys.executable, str(Path(__file__).resolve()), str(corpus), f"-runs={runs}", f"-seed={seed}", f"-max_len={MAX_LEN}",
           f"-max_total_time={max_time}", f"-dict={dict_file}", "-print_final_stats=1", "-timeout=120", f"-artifact_prefix={out}/"]  # fmt: skip
    try:
        p = subprocess.run(cmd, env=env, capture_output=True, text=True, errors="replace", timeout=max_time + 300, cwd=str(ctx.tmp), preexec_fn=_unlimit)
        err, rc = p.stderr, p.returncode
    except subprocess.TimeoutExpired as te:
        err, rc = (te.stderr or b"").decode("utf-8", "replace") if isinstance(te.stderr, bytes) else (te.stderr or ""), -9
    m = re.search(r"stat::number_of_executed_units:\s*(\d+)", err)
    execs = int(m.group(1)) if m else 0
    covs = re.findall(r"cov: (\d+) ft: (\d+)", err)
    stats = {"execs": execs, "cov": int(covs[-1][0]) if covs else 0, "features": int(covs[-1][1]) if covs else 0, "exit": rc}
    nfail = 0
    for jf in sorted(out.glob("*.json")):
        doc = json.loads(jf.read_text())
        fd = doc["fail"]
        ctx.fail(Fail(fd["clause"], fd["kind"], "[atheris] " + fd["message"], fd.get("detail")), doc["case"])
        nfail += 1
    stats["failure_buckets"] = nfail
    if rc != 0:
        # a crash of the target that is not one of our recorded failures: harness error (never a verdict)
        crash = sorted(out.glob("crash-*")) + sorted(out.glob("timeout-*")) + sorted(out.glob("oom-*"))
        raise HarnessError(f"atheris run '{name}' exited {rc} ({[c.name for c in crash]}):\n{err[-1500:]}")
    if execs:
        ctx.case(None, (f"atheris:{name}",), None, n=execs)
    return stats


def run(ctx, check_case, seconds: float = 500.0) -> None:  # noqa: ARG001
    """Seeded-corpus run (2/3 of `seconds`) and empty-corpus run (1/3); results go into ctx (failures) and
    ctx.res.extra (statistics). -runs bounds the work on a fast machine, -max_total_time on a slow one."""
    from vp.common.harness import derive_seed

    if not available():
        ctx.res.extra["atheris"] = "unavailable (run sh /verif/vp/setup.sh); Hypothesis was the only engine"
        return
    dict_file = ctx.tmp / "c12.dict"
    dict_file.write_text("\n".join(dictionary_entries()) + "\n")
    seeded = ctx.tmp / "corpus-seeded"
    seeded.mkdir(parents=True, exist_ok=True)
    if CORPUS.is_dir():
        for f in sorted(CORPUS.iterdir()):
            if f.is_file():
                shutil.copy(f, seeded / f.name)
    empty = ctx.tmp / "corpus-empty"
    empty.mkdir(parents=True, exist_ok=True)
    seed = derive_seed(ctx.base_seed, 0, "atheris") % (2**31 - 1) + 1
    seconds = float(os.environ.get("C12_ATHERIS_SECONDS", seconds))
    s1 = _one_run(ctx, "seeded", seeded, 1500000, max(20, int(seconds * 0.62)), seed, dict_file)
    s2 = _one_run(ctx, "empty", empty, 750000, max(10, int(seconds * 0.31)), seed, dict_file)
    ctx.res.extra["atheris"] = {"seeded_corpus": s1, "empty_corpus": s2, "seed": seed, "max_len": MAX_LEN}


if __name__ == "__main__":
    _target_main()
