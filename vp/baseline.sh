#!/bin/sh
# Runs the repository's pinned test command (guard off) and prints "passed=<n> failed=<n> errors=<n>".
cd /repo && /venv/bin/python -m pytest -ra -q -p no:cacheprovider --timeout=900 --continue-on-collection-errors "$@" 2>&1 | tail -1
